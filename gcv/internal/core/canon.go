package core

import (
	"fmt"
	"go/constant"
	"go/token"
	"go/types"
	"os"
	"strings"

	"golang.org/x/tools/go/ssa"
	"golang.org/x/tools/go/ssa/ssautil"
)

// canonicalise rewrites the SSA form of the module's functions in place so that equivalent ways of writing
// a condition give the same instructions, and the rules need to know one form only:
//
//   - a constant operand of a comparison or of a commutative integer operation stands on the right
//     ("0 == x" -> "x == 0", "nil != r" -> "r != nil", "4 + n" -> "n + 4");
//   - the negation of a comparison that has no other use is the opposite comparison
//     ("!(a >= b)" -> "a < b").
//
// Both rewrites preserve the meaning of every instruction; referrer lists are kept consistent.
func canonicalise(prog *ssa.Program) {
	for fn := range ssautil.AllFunctions(prog) {
		if fn.Blocks == nil || !InModule(fn) {
			continue
		}
		for _, b := range fn.Blocks {
			for _, ins := range b.Instrs {
				bo, ok := ins.(*ssa.BinOp)
				if !ok {
					continue
				}
				_, xc := bo.X.(*ssa.Const)
				_, yc := bo.Y.(*ssa.Const)
				if !xc || yc {
					continue
				}
				switch bo.Op {
				case token.EQL, token.NEQ:
					bo.X, bo.Y = bo.Y, bo.X
				case token.LSS:
					bo.X, bo.Y, bo.Op = bo.Y, bo.X, token.GTR
				case token.GTR:
					bo.X, bo.Y, bo.Op = bo.Y, bo.X, token.LSS
				case token.LEQ:
					bo.X, bo.Y, bo.Op = bo.Y, bo.X, token.GEQ
				case token.GEQ:
					bo.X, bo.Y, bo.Op = bo.Y, bo.X, token.LEQ
				case token.ADD, token.MUL, token.AND, token.OR, token.XOR:
					if bt, isB := bo.Type().Underlying().(*types.Basic); isB && bt.Info()&types.IsInteger != 0 {
						bo.X, bo.Y = bo.Y, bo.X
					}
				}
			}
		}
		// !(a op b) with the comparison used only by the negation
		neg := map[token.Token]token.Token{token.LSS: token.GEQ, token.GEQ: token.LSS, token.GTR: token.LEQ, token.LEQ: token.GTR, token.EQL: token.NEQ, token.NEQ: token.EQL}
		for _, b := range fn.Blocks {
			kept := b.Instrs[:0]
			for _, ins := range b.Instrs {
				un, ok := ins.(*ssa.UnOp)
				if !ok || un.Op != token.NOT {
					kept = append(kept, ins)
					continue
				}
				bo, ok := un.X.(*ssa.BinOp)
				if !ok {
					kept = append(kept, ins)
					continue
				}
				ng, isCmp := neg[bo.Op]
				refs := bo.Referrers()
				if !isCmp || refs == nil || len(*refs) != 1 || (*refs)[0] != ssa.Instruction(un) || isFloat(bo.X.Type()) {
					kept = append(kept, ins)
					continue
				}
				// bo becomes the negated comparison and takes over every use of un
				bo.Op = ng
				*refs = (*refs)[:0]
				if ur := un.Referrers(); ur != nil {
					for _, user := range *ur {
						for _, op := range user.Operands(nil) {
							if *op == ssa.Value(un) {
								*op = bo
							}
						}
						*refs = append(*refs, user)
					}
				}
				// un is dropped from the block
			}
			for i := len(kept); i < len(b.Instrs); i++ {
				b.Instrs[i] = nil
			}
			b.Instrs = kept
		}
		threadBoolPhis(fn)
	}
}

func isFloat(t types.Type) bool {
	b, ok := t.Underlying().(*types.Basic)
	return ok && b.Info()&(types.IsFloat|types.IsComplex) != 0
}

// threadBoolPhis undoes "a condition computed as a value": a block that consists of a boolean phi and a
// branch on it (what "case a && b:" of a tagless switch, or "ok := a || b; if ok", compile to) is removed and
// its predecessors are wired to the branch targets directly - the short-circuit exits (constant edges) jump to
// the side their constant selects, the predecessor that computed the last operand branches on it.  The result
// is the control-flow graph that "if a && b" produces, so every rule sees one form.  Only blocks whose phi has
// no other use are touched; phis of the targets get the edges of the new predecessors; dominators are rebuilt.
func threadBoolPhis(fn *ssa.Function) {
	changed := false
	for again := true; again; {
		again = false
		for _, b := range fn.Blocks {
			if b == nil || len(b.Instrs) != 2 || len(b.Succs) != 2 || b.Succs[0] == b.Succs[1] || b == fn.Blocks[0] {
				continue
			}
			phi, ok1 := b.Instrs[0].(*ssa.Phi)
			iff, ok2 := b.Instrs[1].(*ssa.If)
			if !ok1 || !ok2 || iff.Cond != ssa.Value(phi) {
				continue
			}
			if refs := phi.Referrers(); refs == nil || len(*refs) != 1 {
				continue
			}
			T, F := b.Succs[0], b.Succs[1]
			if T == b || F == b {
				continue
			}
			// every predecessor must be rewirable: a constant edge from any block, or a computed edge from a
			// block that ends in an unconditional jump to b
			okAll := len(b.Preds) >= 2
			seenPred := map[*ssa.BasicBlock]bool{}
			computed := 0
			for i, pr := range b.Preds {
				if seenPred[pr] || pr == b {
					okAll = false
				}
				seenPred[pr] = true
				if c, isC := phi.Edges[i].(*ssa.Const); isC && c.Value != nil {
					continue
				}
				computed++
				if _, isJ := pr.Instrs[len(pr.Instrs)-1].(*ssa.Jump); !isJ || len(pr.Succs) != 1 {
					okAll = false
				}
			}
			// a phi whose edges are all constants is a flag variable ("found := false ... found = true"),
			// not a short-circuit expression: left as it is (rules read such flags)
			if !okAll || computed == 0 {
				continue
			}
			edgeIndex := func(t *ssa.BasicBlock) int {
				for i, p := range t.Preds {
					if p == b {
						return i
					}
				}
				return -1
			}
			kT, kF := edgeIndex(T), edgeIndex(F)
			if kT < 0 || kF < 0 {
				continue
			}
			addPred := func(t *ssa.BasicBlock, k int, pr *ssa.BasicBlock) {
				t.Preds = append(t.Preds, pr)
				for _, ins := range t.Instrs {
					ph, ok := ins.(*ssa.Phi)
					if !ok {
						break
					}
					v := ph.Edges[k]
					ph.Edges = append(ph.Edges, v)
					if r := v.Referrers(); r != nil {
						*r = append(*r, ph)
					}
				}
			}
			for i, pr := range b.Preds {
				e := phi.Edges[i]
				if c, isC := e.(*ssa.Const); isC && c.Value != nil {
					t, k := F, kF
					if constant.BoolVal(c.Value) {
						t, k = T, kT
					}
					for j, s := range pr.Succs {
						if s == b {
							pr.Succs[j] = t
						}
					}
					addPred(t, k, pr)
					continue
				}
				// computed edge: the jump becomes a branch on the value
				nif := ssa.GcvNewIf(e, pr)
				pr.Instrs[len(pr.Instrs)-1] = nif
				if r := e.Referrers(); r != nil {
					// the phi is leaving: replace it in the referrer list by the new branch
					for x, u := range *r {
						if u == ssa.Instruction(phi) {
							(*r)[x] = nif
						}
					}
				}
				pr.Succs = []*ssa.BasicBlock{T, F}
				addPred(T, kT, pr)
				addPred(F, kF, pr)
			}
			// b leaves the graph
			dropPred := func(t *ssa.BasicBlock) {
				k := edgeIndex(t)
				if k < 0 {
					return
				}
				t.Preds = append(t.Preds[:k:k], t.Preds[k+1:]...)
				for _, ins := range t.Instrs {
					ph, ok := ins.(*ssa.Phi)
					if !ok {
						break
					}
					ph.Edges = append(ph.Edges[:k:k], ph.Edges[k+1:]...)
				}
			}
			dropPred(T)
			dropPred(F)
			b.Preds, b.Succs = nil, nil
			b.Instrs = nil
			for i, x := range fn.Blocks {
				if x == b {
					fn.Blocks = append(fn.Blocks[:i:i], fn.Blocks[i+1:]...)
					break
				}
			}
			for i, x := range fn.Blocks {
				x.Index = i
			}
			changed, again = true, true
			break
		}
	}
	if changed {
		ssa.GcvRebuildDomTree(fn)
	}
}

// InlineView selects the second view of the program: helper functions that are called from one function only
// are inlined into it (see inlineHelpers).  Set by the driver when the first view left violations.
var InlineView bool

// KeepFunction is set by the rules package: functions whose name a rule mentions are never inlined.
var KeepFunction func(shortName string) bool

// inlineHelpers puts the body of a helper back into its caller, so that a rule anchored in a function still
// finds "its" statements after a group of them was moved into a new helper (or always lived in one).  A
// callee is inlined when it belongs to the module and to the caller's package, all its static call sites
// are in that one calling function, its address is never taken, it has no defer or recover, it is not
// recursive and it is small.  Repeated until nothing changes (helpers of helpers), at most three rounds.
func inlineHelpers(prog *ssa.Program) {
	var fns []*ssa.Function
	for fn := range ssautil.AllFunctions(prog) {
		if fn.Blocks != nil && InModule(fn) {
			fns = append(fns, fn)
		}
	}
	for round := 0; round < 3; round++ {
		callers := map[*ssa.Function]map[*ssa.Function]int{}
		taken := map[*ssa.Function]bool{}
		for _, fn := range fns {
			if fn.Synthetic != "" {
				continue // wrappers of promoted methods, bound-method closures: not callers in the source
			}
			for _, b := range fn.Blocks {
				for _, ins := range b.Instrs {
					var callVal ssa.Value
					if c, ok := ins.(ssa.CallInstruction); ok {
						callVal = c.Common().Value
						if g := c.Common().StaticCallee(); g != nil {
							if _, plain := ins.(*ssa.Call); plain {
								if callers[g] == nil {
									callers[g] = map[*ssa.Function]int{}
								}
								callers[g][fn]++
							} else {
								taken[g] = true // go / defer: left alone
							}
						}
					}
					for _, op := range ins.Operands(nil) {
						if g, ok := (*op).(*ssa.Function); ok && *op != callVal {
							taken[g] = true
						}
					}
				}
			}
		}
		changedAny := false
		for _, fn := range fns {
			changed := false
			for again := true; again; {
				again = false
			scan:
				for _, b := range fn.Blocks {
					for _, ins := range b.Instrs {
						c, ok := ins.(*ssa.Call)
						if !ok {
							continue
						}
						g := c.Call.StaticCallee()
						if g != nil && os.Getenv("GCV_DBGINL") != "" && strings.Contains(g.String(), os.Getenv("GCV_DBGINL")) {
							fmt.Fprintln(os.Stderr, "candidate", g.String(), "in", fn.String(), "taken", taken[g], "callers", len(callers[g]), callers[g][fn], "blocks", len(g.Blocks), "inl", ssa.GcvInlinable(g), "rec", calls(g, g))
						}
						if g == nil || g == fn || !InModule(g) || g.Pkg != fn.Pkg || g.Pkg == nil || taken[g] || len(g.Blocks) > 80 || g.Parent() != nil {
							continue
						}
						if cs := callers[g]; len(cs) != 1 || cs[fn] == 0 || cs[fn] > 8 {
							continue
						}
						if g.Object() == nil || g.Object().Exported() && g.Signature.Recv() == nil {
							continue // exported package-level functions are API: rules name them
						}
						if calls(g, g) || !ssa.GcvInlinable(g) || (KeepFunction != nil && KeepFunction(g.Name())) {
							continue
						}
						okInl := ssa.GcvInlineCall(c)
						if os.Getenv("GCV_DBGINL") != "" {
							fmt.Fprintln(os.Stderr, "inline", g.String(), "into", fn.String(), okInl)
						}
						if okInl {
							changed, again = true, true
							break scan
						}
					}
				}
			}
			if changed {
				threadBoolPhis(fn)
				changedAny = true
			}
		}
		if !changedAny {
			break
		}
	}
}

// calls: f calls g directly (used as the recursion test for helpers).
func calls(f, g *ssa.Function) bool {
	for _, b := range f.Blocks {
		for _, ins := range b.Instrs {
			if c, ok := ins.(ssa.CallInstruction); ok && c.Common().StaticCallee() == g {
				return true
			}
		}
	}
	return false
}

package core

import (
	"fmt"
	"go/constant"
	"go/token"
	"go/types"
	"os"
	"strings"

	"golang.org/x/tools/go/ssa"
	"golang.org/x/tools/go/ssa/ssautil"
)

// canonicalise rewrites the SSA form of the module's functions in place so that equivalent ways of writing
// a condition give the same instructions, and the rules need to know one form only:
//
//   - a constant operand of a comparison or of a commutative integer operation stands on the right
//     ("0 == x" -> "x == 0", "nil != r" -> "r != nil", "4 + n" -> "n + 4");
//   - the negation of a comparison that has no other use is the opposite comparison
//     ("!(a >= b)" -> "a < b").
//
// Both rewrites preserve the meaning of every instruction; referrer lists are kept consistent.
func canonicalise(prog *ssa.Program) {
	for fn := range ssautil.AllFunctions(prog) {
		if fn.Blocks == nil || !InModule(fn) {
			continue
		}
		for _, b := range fn.Blocks {
			for _, ins := range b.Instrs {
				bo, ok := ins.(*ssa.BinOp)
				if !ok {
					continue
				}
				_, xc := bo.X.(*ssa.Const)
				_, yc := bo.Y.(*ssa.Const)
				if !xc || yc {
					continue
				}
				switch bo.Op {
				case token.EQL, token.NEQ:
					bo.X, bo.Y = bo.Y, bo.X
				case token.LSS:
					bo.X, bo.Y, bo.Op = bo.Y, bo.X, token.GTR
				case token.GTR:
					bo.X, bo.Y, bo.Op = bo.Y, bo.X, token.LSS
				case token.LEQ:
					bo.X, bo.Y, bo.Op = bo.Y, bo.X, token.GEQ
				case token.GEQ:
					bo.X, bo.Y, bo.Op = bo.Y, bo.X, token.LEQ
				case token.ADD, token.MUL, token.AND, token.OR, token.XOR:
					if bt, isB := bo.Type().Underlying().(*types.Basic); isB && bt.Info()&types.IsInteger != 0 {
						bo.X, bo.Y = bo.Y, bo.X
					}
				}
			}
		}
		// !(a op b) with the comparison used only by the negation
		neg := map[token.Token]token.Token{token.LSS: token.GEQ, token.GEQ: token.LSS, token.GTR: token.LEQ, token.LEQ: token.GTR, token.EQL: token.NEQ, token.NEQ: token.EQL}
		for _, b := range fn.Blocks {
			kept := b.Instrs[:0]
			for _, ins := range b.Instrs {
				un, ok := ins.(*ssa.UnOp)
				if !ok || un.Op != token.NOT {
					kept = append(kept, ins)
					continue
				}
				bo, ok := un.X.(*ssa.BinOp)
				if !ok {
					kept = append(kept, ins)
					continue
				}
				ng, isCmp := neg[bo.Op]
				refs := bo.Referrers()
				if !isCmp || refs == nil || len(*refs) != 1 || (*refs)[0] != ssa.Instruction(un) || isFloat(bo.X.Type()) {
					kept = append(kept, ins)
					continue
				}
				// bo becomes the negated comparison and takes over every use of un
				bo.Op = ng
				*refs = (*refs)[:0]
				if ur := un.Referrers(); ur != nil {
					for _, user := range *ur {
						for _, op := range user.Operands(nil) {
							if *op == ssa.Value(un) {
								*op = bo
							}
						}
						*refs = append(*refs, user)
					}
				}
				// un is dropped from the block
			}
			for i := len(kept); i < len(b.Instrs); i++ {
				b.Instrs[i] = nil
			}
			b.Instrs = kept
		}
		branchOnNegation(fn)
		threadBoolPhis(fn)
	}
}

// branchOnNegation: "if !x" normally compiles to a branch on x with the targets exchanged, but go/ssa keeps the
// negation as an instruction where the condition is a case of a tagless switch ("switch { case !x: ... }") or
// was computed into a variable.  A branch on "!x" becomes a branch on x with its successors exchanged; the
// negation is dropped when nothing else uses it.  (Successor order is the only thing that changes: predecessor
// lists, phi edges and dominators are unaffected.)
func branchOnNegation(fn *ssa.Function) {
	dropRef := func(v ssa.Value, user ssa.Instruction) {
		if refs := v.Referrers(); refs != nil {
			for i, r := range *refs {
				if r == user {
					*refs = append((*refs)[:i], (*refs)[i+1:]...)
					break
				}
			}
		}
	}
	for _, b := range fn.Blocks {
		if len(b.Instrs) == 0 || len(b.Succs) != 2 {
			continue
		}
		iff, ok := b.Instrs[len(b.Instrs)-1].(*ssa.If)
		if !ok {
			continue
		}
		for {
			un, isNot := iff.Cond.(*ssa.UnOp)
			if !isNot || un.Op != token.NOT {
				break
			}
			iff.Cond = un.X
			b.Succs[0], b.Succs[1] = b.Succs[1], b.Succs[0]
			dropRef(un, iff)
			if refs := un.X.Referrers(); refs != nil {
				*refs = append(*refs, iff)
			}
			if ur := un.Referrers(); ur != nil && len(*ur) == 0 {
				// the negation has no use left: remove it from its block
				dropRef(un.X, un)
				ub := un.Block()
				for i, ins := range ub.Instrs {
					if ins == ssa.Instruction(un) {
						ub.Instrs = append(ub.Instrs[:i], ub.Instrs[i+1:]...)
						break
					}
				}
			}
		}
	}
}

func isFloat(t types.Type) bool {
	b, ok := t.Underlying().(*types.Basic)
	return ok && b.Info()&(types.IsFloat|types.IsComplex) != 0
}

// threadBoolPhis undoes "a condition computed as a value": a block that consists of phis and a branch on
// one of them (what "case a && b:" of a tagless switch, "ok := a || b; if ok", or the merged results of an
// inlined helper followed by "if decided" compile to) is removed and its predecessors are wired to the branch
// targets directly - the edges that carry a constant jump to the side the constant selects, a predecessor
// that computed the value branches on it.  The result is the control-flow graph that "if a && b" produces, so
// every rule sees one form.  The branched-on phi must have no other use; further phis of the block (the
// second result of an inlined helper) are re-created in the target whose region uses them.  A phi whose
// edges are all constants is a flag variable of the source ("found := false ... found = true") and stays,
// unless it merges the results of an inlined call.  Dominators are rebuilt.
func threadBoolPhis(fn *ssa.Function) {
	changed := false
	for again := true; again; {
		again = false
		for _, b := range fn.Blocks {
			if threadOne(fn, b) {
				changed, again = true, true
				break
			}
		}
	}
	if changed {
		ssa.GcvRebuildDomTree(fn)
	}
}

func threadOne(fn *ssa.Function, b *ssa.BasicBlock) bool {
	if b == nil || len(b.Instrs) < 2 || len(b.Succs) != 2 || b.Succs[0] == b.Succs[1] || b == fn.Blocks[0] {
		return false
	}
	iff, ok := b.Instrs[len(b.Instrs)-1].(*ssa.If)
	if !ok {
		return false
	}
	var phis []*ssa.Phi
	for _, ins := range b.Instrs[:len(b.Instrs)-1] {
		ph, ok := ins.(*ssa.Phi)
		if !ok {
			return false
		}
		phis = append(phis, ph)
	}
	P, ok := iff.Cond.(*ssa.Phi)
	if !ok || P.Block() != b {
		return false
	}
	if refs := P.Referrers(); refs == nil || len(*refs) != 1 {
		return false
	}
	T, F := b.Succs[0], b.Succs[1]
	if T == b || F == b {
		return false
	}
	if len(b.Preds) < 2 {
		return false
	}
	seenPred := map[*ssa.BasicBlock]bool{}
	computed := 0
	for i, pr := range b.Preds {
		if seenPred[pr] || pr == b {
			return false
		}
		seenPred[pr] = true
		if c, isC := P.Edges[i].(*ssa.Const); isC && c.Value != nil && c.Value.Kind() == constant.Bool {
			continue
		}
		computed++
		if _, isJ := pr.Instrs[len(pr.Instrs)-1].(*ssa.Jump); !isJ || len(pr.Succs) != 1 {
			return false
		}
	}
	if computed == 0 && P.Comment != "inl.result" {
		return false // a flag variable of the source
	}
	edgeIndex := func(t *ssa.BasicBlock) int {
		for i, p := range t.Preds {
			if p == b {
				return i
			}
		}
		return -1
	}
	kT, kF := edgeIndex(T), edgeIndex(F)
	if kT < 0 || kF < 0 {
		return false
	}
	// the other phis: every use is an edge (from b) of a phi in T or F, or sits in the region of a target that
	// is entered from b only
	isOwn := map[ssa.Value]*ssa.Phi{}
	for _, q := range phis {
		isOwn[q] = q
	}
	type use struct {
		q      *ssa.Phi
		ins    ssa.Instruction
		target *ssa.BasicBlock
	}
	var direct []use
	for _, q := range phis {
		if q == P {
			continue
		}
		refs := q.Referrers()
		if refs == nil {
			continue
		}
		for _, u := range *refs {
			if up, isPhi := u.(*ssa.Phi); isPhi && (up.Block() == T || up.Block() == F) {
				k := kT
				if up.Block() == F {
					k = kF
				}
				okEdge := true
				for ei, e := range up.Edges {
					if e == ssa.Value(q) && ei != k {
						okEdge = false
					}
				}
				if okEdge {
					continue
				}
				return false
			}
			ub := u.Block()
			switch {
			case ub == nil:
				return false
			case len(T.Preds) == 1 && (ub == T || T.Dominates(ub)):
				direct = append(direct, use{q, u, T})
			case len(F.Preds) == 1 && (ub == F || F.Dominates(ub)):
				direct = append(direct, use{q, u, F})
			default:
				return false
			}
		}
	}
	// rewire
	type np struct {
		pr *ssa.BasicBlock
		i  int
	}
	var toT, toF []np
	for i, pr := range b.Preds {
		e := P.Edges[i]
		if c, isC := e.(*ssa.Const); isC && c.Value != nil && c.Value.Kind() == constant.Bool {
			t := F
			if constant.BoolVal(c.Value) {
				t = T
				toT = append(toT, np{pr, i})
			} else {
				toF = append(toF, np{pr, i})
			}
			for j, sx := range pr.Succs {
				if sx == b {
					pr.Succs[j] = t
				}
			}
			continue
		}
		nif := ssa.GcvNewIf(e, pr)
		pr.Instrs[len(pr.Instrs)-1] = nif
		if r := e.Referrers(); r != nil {
			*r = append(*r, nif)
		}
		pr.Succs = []*ssa.BasicBlock{T, F}
		toT = append(toT, np{pr, i})
		toF = append(toF, np{pr, i})
	}
	dropRef := func(v ssa.Value, user ssa.Instruction) {
		if r := v.Referrers(); r != nil {
			k := (*r)[:0]
			for _, u := range *r {
				if u != user {
					k = append(k, u)
				}
			}
			*r = k
		}
	}
	addRef := func(v ssa.Value, user ssa.Instruction) {
		if r := v.Referrers(); r != nil {
			*r = append(*r, user)
		}
	}
	fix := func(t *ssa.BasicBlock, k int, news []np) {
		// existing phis of t: the edge from b is replaced by one edge per new predecessor
		for _, ins := range t.Instrs {
			ph, ok := ins.(*ssa.Phi)
			if !ok {
				break
			}
			old := ph.Edges[k]
			var add []ssa.Value
			for _, n := range news {
				v := old
				if q, own := isOwn[old]; own {
					v = q.Edges[n.i]
				}
				add = append(add, v)
				addRef(v, ph)
			}
			dropRef(old, ph)
			ph.Edges = append(append(append([]ssa.Value{}, ph.Edges[:k]...), ph.Edges[k+1:]...), add...)
		}
		var preds []*ssa.BasicBlock
		preds = append(preds, t.Preds[:k]...)
		preds = append(preds, t.Preds[k+1:]...)
		for _, n := range news {
			preds = append(preds, n.pr)
		}
		t.Preds = preds
	}
	fix(T, kT, toT)
	fix(F, kF, toF)
	// phis of b that are used directly in a target's region are re-created there
	made := map[*ssa.BasicBlock]map[*ssa.Phi]ssa.Value{}
	for _, u := range direct {
		if made[u.target] == nil {
			made[u.target] = map[*ssa.Phi]ssa.Value{}
		}
		nv, ok := made[u.target][u.q]
		if !ok {
			news := toT
			if u.target == F {
				news = toF
			}
			if len(news) == 1 {
				nv = u.q.Edges[news[0].i]
			} else {
				nph := ssa.GcvNewPhi(u.q, u.target)
				for _, n := range news { // u.target.Preds is exactly news, in this order (it had b as only predecessor)
					nph.Edges = append(nph.Edges, u.q.Edges[n.i])
					addRef(u.q.Edges[n.i], nph)
				}
				u.target.Instrs = append([]ssa.Instruction{nph}, u.target.Instrs...)
				nv = nph
			}
			made[u.target][u.q] = nv
		}
		for _, op := range u.ins.Operands(nil) {
			if *op == ssa.Value(u.q) {
				*op = nv
			}
		}
		addRef(nv, u.ins)
	}
	for _, q := range phis {
		for _, e := range q.Edges {
			dropRef(e, q)
		}
	}
	b.Preds, b.Succs, b.Instrs = nil, nil, nil
	for i, x := range fn.Blocks {
		if x == b {
			fn.Blocks = append(fn.Blocks[:i:i], fn.Blocks[i+1:]...)
			break
		}
	}
	for i, x := range fn.Blocks {
		x.Index = i
	}
	return true
}

// InlineView selects the second view of the program: helper functions that are called from one function only
// are inlined into it (see inlineHelpers).  Set by the driver when the first view left violations.
var InlineView bool

// KeepFunction is set by the rules package: functions whose name a rule mentions are never inlined.
var KeepFunction func(shortName string) bool

// inlineHelpers puts the body of a helper back into its caller, so that a rule anchored in a function still
// finds "its" statements after a group of them was moved into a new helper (or always lived in one).  A
// callee is inlined when it belongs to the module and to the caller's package, all its static call sites
// are in that one calling function, its address is never taken, it has no defer or recover, it is not
// recursive and it is small.  Repeated until nothing changes (helpers of helpers), at most three rounds.
// InlinedAway: helpers whose every call was folded into the caller (second view only).
var InlinedAway = map[*ssa.Function]bool{}

func inlineHelpers(prog *ssa.Program) {
	var fns []*ssa.Function
	for fn := range ssautil.AllFunctions(prog) {
		if fn.Blocks != nil && InModule(fn) {
			fns = append(fns, fn)
		}
	}
	inlinedOnce := map[*ssa.Function]bool{}
	defer func() {
		// a helper of which no call is left is no longer part of the program in this view
		still := map[*ssa.Function]bool{}
		for _, fn := range fns {
			if inlinedOnce[fn] {
				continue
			}
			for _, b := range fn.Blocks {
				for _, ins := range b.Instrs {
					for _, op := range ins.Operands(nil) {
						if g, ok := (*op).(*ssa.Function); ok {
							still[g] = true
						}
					}
				}
			}
		}
		for g := range inlinedOnce {
			if !still[g] {
				InlinedAway[g] = true
			}
		}
	}()
	for round := 0; round < 3; round++ {
		callers := map[*ssa.Function]map[*ssa.Function]int{}
		taken := map[*ssa.Function]bool{}
		for _, fn := range fns {
			if fn.Synthetic != "" {
				continue // wrappers of promoted methods, bound-method closures: not callers in the source
			}
			for _, b := range fn.Blocks {
				for _, ins := range b.Instrs {
					var callVal ssa.Value
					if c, ok := ins.(ssa.CallInstruction); ok {
						callVal = c.Common().Value
						if g := c.Common().StaticCallee(); g != nil {
							if _, plain := ins.(*ssa.Call); plain {
								if callers[g] == nil {
									callers[g] = map[*ssa.Function]int{}
								}
								callers[g][fn]++
							} else {
								taken[g] = true // go / defer: left alone
							}
						}
					}
					for _, op := range ins.Operands(nil) {
						if g, ok := (*op).(*ssa.Function); ok && *op != callVal {
							taken[g] = true
						}
					}
				}
			}
		}
		changedAny := false
		for _, fn := range fns {
			changed := false
			for again := true; again; {
				again = false
			scan:
				for _, b := range fn.Blocks {
					for _, ins := range b.Instrs {
						c, ok := ins.(*ssa.Call)
						if !ok {
							continue
						}
						g := c.Call.StaticCallee()
						if g != nil && os.Getenv("GCV_DBGINL") != "" && strings.Contains(g.String(), os.Getenv("GCV_DBGINL")) {
							fmt.Fprintln(os.Stderr, "candidate", g.String(), "in", fn.String(), "taken", taken[g], "callers", len(callers[g]), callers[g][fn], "blocks", len(g.Blocks), "inl", ssa.GcvInlinable(g), "rec", calls(g, g))
						}
						if g == nil || g == fn || !InModule(g) || g.Pkg != fn.Pkg || g.Pkg == nil || taken[g] || len(g.Blocks) > 80 || g.Parent() != nil {
							continue
						}
						if cs := callers[g]; len(cs) != 1 || cs[fn] == 0 || cs[fn] > 8 {
							continue
						}
						if g.Object() == nil || g.Object().Exported() && g.Signature.Recv() == nil {
							continue // exported package-level functions are API: rules name them
						}
						if calls(g, g) || !ssa.GcvInlinable(g) || (KeepFunction != nil && KeepFunction(g.Name())) {
							continue
						}
						okInl := ssa.GcvInlineCall(c)
						if os.Getenv("GCV_DBGINL") != "" {
							fmt.Fprintln(os.Stderr, "inline", g.String(), "into", fn.String(), okInl)
						}
						if okInl {
							inlinedOnce[g] = true
							changed, again = true, true
							break scan
						}
					}
				}
			}
			if changed {
				threadBoolPhis(fn)
				changedAny = true
			}
		}
		if !changedAny {
			break
		}
	}
}

// calls: f calls g directly (used as the recursion test for helpers).
func calls(f, g *ssa.Function) bool {
	for _, b := range f.Blocks {
		for _, ins := range b.Instrs {
			if c, ok := ins.(ssa.CallInstruction); ok && c.Common().StaticCallee() == g {
				return true
			}
		}
	}
	return false
}

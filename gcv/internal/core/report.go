package core

import (
	"encoding/json"
	"fmt"
	"os"
	"path/filepath"
	"sort"
	"strings"
	"time"
)

// VerifDir is the directory holding MANIFEST.json, evidence/, out/, known_findings.json.
func VerifDir() string {
	if d := os.Getenv("GCV_VERIF"); d != "" {
		return d
	}
	// the binary lives in <verif>/bin/gcv
	if exe, err := os.Executable(); err == nil {
		d := filepath.Dir(filepath.Dir(exe))
		if _, err := os.Stat(filepath.Join(d, "properties.jsonl")); err == nil {
			return d
		}
	}
	return "/verif"
}

// Obligation is one rule instance decided on this run.
type Obligation struct {
	Rule   string   `json:"rule"`
	Key    string   `json:"key"`              // stable instance key (no line numbers)
	Status string   `json:"status"`           // ok | violated | known | info
	Where  string   `json:"where,omitempty"`  // file:line (diagnostic only)
	Detail string   `json:"detail,omitempty"` // what was matched / what fails
	Path   []string `json:"path,omitempty"`   // steps (for path rules)
}

type KnownFinding struct {
	Property string `json:"property"`
	Rule     string `json:"rule"`
	Key      string `json:"key"`
	What     string `json:"what"`
}

type FixedFinding struct {
	Property string `json:"property"`
	Commit   string `json:"commit"`
	What     string `json:"what"`
}

type KnownFile struct {
	Known []KnownFinding `json:"known"`
	Fixed []FixedFinding `json:"fixed"`
	Notes string         `json:"notes,omitempty"`
}

type Run struct {
	Prop           string
	Tier           string
	Seed           int64
	Start          time.Time
	Obs            []Obligation
	Analysed       map[string]int // free-form counters: packages, functions, call sites, ...
	Rules          map[string]string
	Assume         []string
	Explain        string
	NotCov         string
	Exhaust        map[string]bool // rules that enumerated a finite space completely
	undecided      []string
	Variants       []VariantResult
	VariantSummary string
}

type VariantResult struct {
	Name   string `json:"name"`
	Rule   string `json:"first_report,omitempty"`
	Status string `json:"status"` // detected | missed | silent-as-expected | false-alarm | not-applicable | does-not-type-check
}

func NewRun(prop, tier string) *Run {
	var seed int64
	fmt.Sscan(os.Getenv("VERIF_SEED"), &seed)
	return &Run{Prop: prop, Tier: tier, Seed: seed, Start: time.Now(), Analysed: map[string]int{}, Rules: map[string]string{}, Exhaust: map[string]bool{}}
}

// Rule registers a rule id with its one-line statement (printed in the evidence).
func (r *Run) Rule(id, text string) { r.Rules[id] = text }

func (r *Run) Count(name string, n int) { r.Analysed[name] += n }

func (r *Run) OK(rule, key, where, detail string) {
	r.Obs = append(r.Obs, Obligation{Rule: rule, Key: key, Status: "ok", Where: where, Detail: detail})
}

func (r *Run) Fail(rule, key, where, detail string, path ...string) {
	r.Obs = append(r.Obs, Obligation{Rule: rule, Key: key, Status: "violated", Where: where, Detail: detail, Path: path})
}

// Check records ok or violated depending on cond.
func (r *Run) Check(cond bool, rule, key, where, okDetail, failDetail string) bool {
	if cond {
		r.OK(rule, key, where, okDetail)
	} else {
		r.Fail(rule, key, where, failDetail)
	}
	return cond
}

// Undecided marks the run as unable to decide (anchor unresolved, load failure).
func (r *Run) Undecided(format string, a ...interface{}) {
	r.undecided = append(r.undecided, fmt.Sprintf(format, a...))
}

// HasUndecided reports whether a rule could not resolve what it is anchored in.
func (r *Run) HasUndecided() bool { return len(r.undecided) > 0 }

// AdoptSecondView replaces the outcome of a run that could not resolve its anchors by the outcome of the
// run on the view with helper functions inlined, which could.
func (r *Run) AdoptSecondView(r2 *Run) {
	first := strings.Join(r.undecided, "; ")
	r.Obs, r.Rules, r.Analysed, r.Assume, r.Explain, r.NotCov = r2.Obs, r2.Rules, r2.Analysed, r2.Assume, r2.Explain, r2.NotCov
	r.undecided = nil
	r.Count("second_view_runs", 1)
	r.Assume = append(r.Assume, "decided on the view with single-caller helper functions inlined; on the plain view an anchor was not resolved: "+first)
}

func loadKnown() KnownFile {
	var kf KnownFile
	b, err := os.ReadFile(filepath.Join(VerifDir(), "known_findings.json"))
	if err == nil {
		if err := json.Unmarshal(b, &kf); err != nil {
			fmt.Fprintf(os.Stderr, "known_findings.json: %v\n", err)
		}
	}
	return kf
}

// Finish prints the verdict lines, writes replay files and the evidence file,
// and returns the process exit code.
func (r *Run) Finish() int {
	vd := VerifDir()
	kf := loadKnown()
	known := map[string]KnownFinding{}
	for _, k := range kf.Known {
		if k.Property == r.Prop {
			known[k.Rule+"|"+k.Key] = k
		}
	}
	outDir := filepath.Join(vd, "out", r.Prop)
	os.RemoveAll(outDir)
	nviol, nknown, nok := 0, 0, 0
	seenKnown := map[string]bool{}
	perRule := map[string][3]int{}
	for i := range r.Obs {
		o := &r.Obs[i]
		c := perRule[o.Rule]
		switch o.Status {
		case "ok":
			nok++
			c[0]++
		case "violated":
			if k, ok := known[o.Rule+"|"+o.Key]; ok {
				o.Status = "known"
				nknown++
				c[2]++
				if !seenKnown[o.Rule+"|"+o.Key] {
					seenKnown[o.Rule+"|"+o.Key] = true
					fmt.Printf("KNOWN-FINDING: property=%s %s [%s %s] at %s\n", r.Prop, k.What, o.Rule, o.Key, o.Where)
				}
			} else {
				nviol++
				c[1]++
				if c[1] > 20 {
					perRule[o.Rule] = c
					continue // counted, not printed: the first 20 instances of a rule identify the problem
				}
				os.MkdirAll(outDir, 0o755)
				rp := filepath.Join(outDir, fmt.Sprintf("%s-%d.json", sanitize(o.Rule), nviol))
				b, _ := json.MarshalIndent(map[string]interface{}{
					"property": r.Prop, "rule": o.Rule, "rule_text": r.Rules[o.Rule], "instance": o.Key,
					"where": o.Where, "detail": o.Detail, "path": o.Path,
				}, "", " ")
				os.WriteFile(rp, b, 0o644)
				fmt.Printf("VIOLATION property=%s replay=%s\n", r.Prop, rp)
				fmt.Printf("  rule %s instance %s at %s: %s\n", o.Rule, o.Key, o.Where, o.Detail)
				for _, s := range o.Path {
					fmt.Printf("    %s\n", s)
				}
			}
		}
		perRule[o.Rule] = c
	}
	// evidence
	type ruleSum struct {
		Rule        string `json:"rule"`
		Text        string `json:"text"`
		Obligations int    `json:"obligations"`
		Discharged  int    `json:"discharged"`
		Violated    int    `json:"violated"`
		Known       int    `json:"known_findings"`
		Exhaustive  bool   `json:"exhaustive,omitempty"`
	}
	var rules []ruleSum
	var ids []string
	for id := range r.Rules {
		ids = append(ids, id)
	}
	for id := range perRule {
		if _, ok := r.Rules[id]; !ok {
			ids = append(ids, id)
		}
	}
	sort.Strings(ids)
	for _, id := range ids {
		c := perRule[id]
		rules = append(rules, ruleSum{id, r.Rules[id], c[0] + c[1] + c[2], c[0], c[1], c[2], r.Exhaust[id]})
	}
	// samples: every non-ok obligation, plus up to 6 ok ones per rule
	var samples []Obligation
	cnt := map[string]int{}
	for _, o := range r.Obs {
		if o.Status != "ok" {
			samples = append(samples, o)
			continue
		}
		if cnt[o.Rule] < 6 {
			cnt[o.Rule]++
			samples = append(samples, o)
		}
	}
	keys := map[string]bool{}
	for _, o := range r.Obs {
		keys[o.Rule+"|"+o.Key] = true
	}
	allEx := len(r.Exhaust) > 0
	for _, id := range ids {
		if !r.Exhaust[id] {
			allEx = false
		}
	}
	cov := map[string]interface{}{
		"explanation":         r.Explain,
		"not_covered":         r.NotCov,
		"obligations":         len(r.Obs),
		"discharged":          nok,
		"violated":            nviol,
		"known_findings":      nknown,
		"evaluations":         len(r.Obs),
		"distinct_nontrivial": len(keys),
		"rule":                "one evaluation = one rule instance (obligation) generated from /repo's resolved program on this run; distinct = distinct (rule,instance-key) pairs; every instance is non-trivial in that it names a concrete construct of the analysed source",
		"rules":               rules,
		"analysed":            r.Analysed,
		"samples":             samples,
		"exhaustive":          allEx,
		"checker_cmd":         "/verif/bin/gcv -p " + r.Prop + " -tier " + r.Tier,
		"trusted_base":        []string{"go/types, go/ssa (x/tools v0.29.0)", "reference tables in gcv/internal/props (oracle)", "the rule tables and one-line exceptions in gcv/internal/props"},
	}
	if len(r.Variants) > 0 {
		cov["variants"] = r.Variants
		cov["variants_summary"] = r.VariantSummary
	}
	if len(r.undecided) > 0 {
		cov["undecided"] = r.undecided
	}
	if r.Assume == nil {
		r.Assume = []string{}
	}
	r.Assume = append(r.Assume, "the go/packages load of /repo (GOFLAGS=-mod=mod, tags {}, listed GOARCH variants) covers what the build covers for the anchored packages")
	ev := map[string]interface{}{
		"property_id": r.Prop,
		"tier":        r.Tier,
		"seed":        r.Seed,
		"level":       "other",
		"coverage":    cov,
		"assumptions": r.Assume,
		"wall_s":      time.Since(r.Start).Seconds(),
		"violations":  nviol,
	}
	if strings.HasPrefix(r.Prop, "X-") {
		return 0 // debugging views are not checks and leave no evidence
	}
	os.MkdirAll(filepath.Join(vd, "evidence"), 0o755)
	b, _ := json.MarshalIndent(ev, "", " ")
	if err := os.WriteFile(filepath.Join(vd, "evidence", r.Prop+".json"), b, 0o644); err != nil {
		fmt.Fprintf(os.Stderr, "cannot write evidence: %v\n", err)
		return 2
	}
	fmt.Printf("%s tier=%s: %d obligations, %d discharged, %d violated, %d known findings, %d rules (%.1fs)\n",
		r.Prop, r.Tier, len(r.Obs), nok, nviol, nknown, len(ids), time.Since(r.Start).Seconds())
	if nviol > 0 {
		return 1
	}
	if len(r.undecided) > 0 {
		for _, u := range r.undecided {
			fmt.Printf("UNDECIDED property=%s %s\n", r.Prop, u)
		}
		return 2
	}
	return 0
}

func sanitize(s string) string {
	return strings.Map(func(r rune) rune {
		if r >= 'a' && r <= 'z' || r >= 'A' && r <= 'Z' || r >= '0' && r <= '9' || r == '-' || r == '_' {
			return r
		}
		return '_'
	}, s)
}

// IsKnownFinding: is (rule, key) of this property listed as a known finding?
func IsKnownFinding(prop, rule, key string) bool {
	for _, k := range loadKnown().Known {
		if k.Property == prop && k.Rule == rule && k.Key == key {
			return true
		}
	}
	return false
}

package an

import (
	"go/token"
	"go/types"
	"sort"
	"strings"

	"gcv/internal/core"

	"golang.org/x/tools/go/ssa"
)

// CalleeFunc returns the *types.Func a call resolves to by type information:
// static callee, interface method (invoke mode) or bound method closure; nil for
// calls of function values and builtins.
func CalleeFunc(c ssa.CallInstruction) *types.Func {
	cc := c.Common()
	if cc.IsInvoke() {
		return cc.Method
	}
	if f := cc.StaticCallee(); f != nil {
		if o, ok := f.Object().(*types.Func); ok {
			return o
		}
		// instantiated generic / wrapper: try origin
		if f.Origin() != nil {
			if o, ok := f.Origin().Object().(*types.Func); ok {
				return o
			}
		}
	}
	return nil
}

// StaticCallee returns the SSA function called (static calls and immediately
// invoked closures), or nil.
func StaticCallee(c ssa.CallInstruction) *ssa.Function {
	cc := c.Common()
	if f := cc.StaticCallee(); f != nil {
		return f
	}
	if mc, ok := cc.Value.(*ssa.MakeClosure); ok {
		if f, ok := mc.Fn.(*ssa.Function); ok {
			return f
		}
	}
	return nil
}

// FullName gives "(*sync.Mutex).Lock", "os.Rename",
// "(*github.com/piotrnar/gocoin/lib/btc.Tx).Sign" shortened to module-relative
// "(*lib/btc.Tx).Sign".
func FullName(f *types.Func) string {
	if f == nil {
		return ""
	}
	return strings.ReplaceAll(f.FullName(), core.Module+"/", "")
}

// CallName returns the module-relative full name of the callee of c ("" if unresolved).
func CallName(c ssa.CallInstruction) string {
	if f := CalleeFunc(c); f != nil {
		return FullName(f)
	}
	if f := StaticCallee(c); f != nil {
		return core.FuncName(f)
	}
	if b, ok := c.Common().Value.(*ssa.Builtin); ok {
		return "builtin." + b.Name()
	}
	return ""
}

// IsCall reports whether c resolves to one of the given full names.
func IsCall(c ssa.CallInstruction, names ...string) bool {
	n := CallName(c)
	if n == "" {
		return false
	}
	for _, x := range names {
		if n == x {
			return true
		}
	}
	return false
}

// Instrs calls f for every instruction of fn (not of nested closures).
func Instrs(fn *ssa.Function, f func(ssa.Instruction)) {
	for _, b := range fn.Blocks {
		for _, i := range b.Instrs {
			f(i)
		}
	}
}

// WithClosures returns fn and all anonymous functions nested in it.
func WithClosures(fn *ssa.Function) []*ssa.Function {
	out := []*ssa.Function{fn}
	seen := map[*ssa.Function]bool{fn: true}
	for i := 0; i < len(out); i++ {
		for _, a := range out[i].AnonFuncs {
			if !seen[a] {
				seen[a] = true
				out = append(out, a)
			}
		}
		// closures made by code that was folded into this function (second view): they belong to the
		// helper they were written in, but are created here
		for _, b := range out[i].Blocks {
			for _, ins := range b.Instrs {
				if mc, ok := ins.(*ssa.MakeClosure); ok {
					if a, ok := mc.Fn.(*ssa.Function); ok && !seen[a] {
						seen[a] = true
						out = append(out, a)
					}
				}
			}
		}
	}
	return out
}

// Calls lists the call instructions (call, go, defer) of fn; deep=true includes closures.
func Calls(fn *ssa.Function, deep bool) []ssa.CallInstruction {
	var out []ssa.CallInstruction
	fns := []*ssa.Function{fn}
	if deep {
		fns = WithClosures(fn)
	}
	for _, f := range fns {
		Instrs(f, func(i ssa.Instruction) {
			if c, ok := i.(ssa.CallInstruction); ok {
				out = append(out, c)
			}
		})
	}
	return out
}

// CallsTo lists call instructions of fn (deep) resolving to any of names.
func CallsTo(fn *ssa.Function, deep bool, names ...string) []ssa.CallInstruction {
	var out []ssa.CallInstruction
	for _, c := range Calls(fn, deep) {
		if IsCall(c, names...) {
			out = append(out, c)
		}
	}
	return out
}

// StaticReach computes the functions reachable from roots through static call
// edges, closures created (MakeClosure), and function values referenced
// (address-taken functions used as operands), restricted to module functions
// when moduleOnly. stop(fn)=true prunes below fn (fn itself is included).
func StaticReach(roots []*ssa.Function, moduleOnly bool, stop func(*ssa.Function) bool) map[*ssa.Function]bool {
	seen := map[*ssa.Function]bool{}
	var work []*ssa.Function
	push := func(f *ssa.Function) {
		if f == nil || seen[f] || f.Blocks == nil {
			return
		}
		if moduleOnly && !core.InModule(f) {
			return
		}
		seen[f] = true
		work = append(work, f)
	}
	for _, r := range roots {
		push(r)
	}
	for len(work) > 0 {
		f := work[len(work)-1]
		work = work[:len(work)-1]
		if stop != nil && stop(f) {
			continue
		}
		Instrs(f, func(i ssa.Instruction) {
			var ops [16]*ssa.Value
			for _, op := range i.Operands(ops[:0]) {
				if op == nil || *op == nil {
					continue
				}
				switch v := (*op).(type) {
				case *ssa.Function:
					push(v)
				case *ssa.MakeClosure:
					if fn, ok := v.Fn.(*ssa.Function); ok {
						push(fn)
					}
				}
			}
			if mc, ok := i.(*ssa.MakeClosure); ok {
				if fn, ok := mc.Fn.(*ssa.Function); ok {
					push(fn)
				}
			}
		})
	}
	return seen
}

// SortedFuncs returns the set's functions sorted by name.
func SortedFuncs(m map[*ssa.Function]bool) []*ssa.Function {
	var out []*ssa.Function
	for f := range m {
		out = append(out, f)
	}
	sort.Slice(out, func(i, j int) bool { return core.FuncName(out[i]) < core.FuncName(out[j]) })
	return out
}

// InstrPos returns the best source position for an instruction.
func InstrPos(i ssa.Instruction) token.Pos {
	if i == nil {
		return token.NoPos
	}
	if p := i.Pos(); p.IsValid() {
		return p
	}
	if v, ok := i.(ssa.Value); ok {
		_ = v
	}
	// fall back to an operand's position
	var ops [8]*ssa.Value
	for _, op := range i.Operands(ops[:0]) {
		if op != nil && *op != nil {
			if p := (*op).Pos(); p.IsValid() {
				return p
			}
		}
	}
	if b := i.Block(); b != nil {
		for _, j := range b.Instrs {
			if p := j.Pos(); p.IsValid() {
				return p
			}
		}
	}
	return token.NoPos
}

// Deref returns the pointee type if t is a pointer, else t.
func Deref(t types.Type) types.Type {
	if p, ok := t.Underlying().(*types.Pointer); ok {
		return p.Elem()
	}
	return t
}

// TypeName gives a short module-relative name of a (possibly pointer to) named type: "lib/btc.Tx".
func TypeName(t types.Type) string {
	t = Deref(t)
	if n, ok := t.(*types.Named); ok {
		o := n.Obj()
		if o.Pkg() != nil {
			return strings.TrimPrefix(o.Pkg().Path(), core.Module+"/") + "." + o.Name()
		}
		return o.Name()
	}
	if _, ok := t.Underlying().(*types.Struct); ok {
		return "struct" // anonymous struct: the field name identifies it
	}
	return t.String()
}

// FieldOf returns "lib/btc.Tx.Version" for a FieldAddr/Field instruction.
func FieldOf(v ssa.Value) (string, bool) {
	switch x := v.(type) {
	case *ssa.FieldAddr:
		st, ok := Deref(x.X.Type()).Underlying().(*types.Struct)
		if !ok {
			return "", false
		}
		return TypeName(x.X.Type()) + "." + st.Field(x.Field).Name(), true
	case *ssa.Field:
		st, ok := x.X.Type().Underlying().(*types.Struct)
		if !ok {
			return "", false
		}
		return TypeName(x.X.Type()) + "." + st.Field(x.Field).Name(), true
	}
	return "", false
}

// SliceLitBytes returns the constant elements of a []byte composite literal (slice of a fresh array
// whose elements are stored as constants; unstored elements are zero).
func SliceLitBytes(v ssa.Value) ([]int64, bool) {
	sl, ok := v.(*ssa.Slice)
	if !ok {
		return nil, false
	}
	al, ok := sl.X.(*ssa.Alloc)
	if !ok {
		return nil, false
	}
	arr, ok := Deref(al.Type()).Underlying().(*types.Array)
	if !ok {
		return nil, false
	}
	out := make([]int64, arr.Len())
	for _, ref := range *al.Referrers() {
		ia, ok := ref.(*ssa.IndexAddr)
		if !ok {
			continue
		}
		ic, ok := ia.Index.(*ssa.Const)
		if !ok || ic.Value == nil {
			return nil, false
		}
		idx, _ := ConstOfValue(ic.Value)
		for _, r2 := range *ia.Referrers() {
			if st, ok := r2.(*ssa.Store); ok {
				c, ok := st.Val.(*ssa.Const)
				if !ok || c.Value == nil {
					return nil, false
				}
				val, _ := ConstOfValue(c.Value)
				if idx >= 0 && idx < int64(len(out)) {
					out[idx] = val
				}
			}
		}
	}
	return out, true
}

package an

import (
	"fmt"
	"go/constant"
	"go/token"
	"go/types"
	"regexp"
	"sort"
	"strings"

	"golang.org/x/tools/go/ssa"
)

// Expr renders an SSA value as a canonical expression over parameters, globals, constants, field and
// element selections, calls and phis. go/ssa does no common-subexpression elimination, so two reads of
// the same location are different values; their renderings are equal, which is what the rules that
// compare "the same k" or "the same element" need. Memory is not versioned: two equal renderings of a
// load are the same location, not necessarily the same content.
//
// A phi whose edges are one value and nil constants renders as that value (a pointer used after the
// nil test); any other phi renders by identity (name and block).
func Expr(v ssa.Value) string { return expr(v, 0) }

func expr(v ssa.Value, d int) string {
	if v == nil {
		return "_"
	}
	if d > 24 {
		return "…"
	}
	if ph := rangeIndexOf(v); ph != nil {
		// the index of "for i := range x": go/ssa keeps a hidden counter that starts at -1 and uses
		// counter+1 as the index; rendered as the loop variable it is, like the i of a counting loop
		return expr(ph, d+1)
	}
	switch x := v.(type) {
	case *ssa.Const:
		if x.Value == nil {
			return "nil"
		}
		return x.Value.ExactString()
	case *ssa.Global:
		pk := ""
		if x.Pkg != nil {
			pk = relPkg(x.Pkg.Pkg.Path()) + "."
		}
		return "&" + pk + x.Name()
	case *ssa.Parameter:
		for i, p := range x.Parent().Params {
			if p == x {
				return fmt.Sprintf("param#%d", i)
			}
		}
		return x.Name()
	case *ssa.FreeVar:
		return "free:" + x.Name()
	case *ssa.Function:
		return "func:" + x.String()
	case *ssa.UnOp:
		if x.Op == token.MUL {
			// a load of a field/element address reads the field/element
			in := expr(x.X, d+1)
			if strings.HasPrefix(in, "&") {
				return in[1:]
			}
			return "*" + in
		}
		if x.Op == token.NOT {
			// the negation of a comparison is the opposite comparison
			if bo, ok := x.X.(*ssa.BinOp); ok {
				if ng, has := negRelTok[bo.Op]; has {
					return cmpExpr(bo.X, ng, bo.Y, d)
				}
			}
		}
		return x.Op.String() + expr(x.X, d+1)
	case *ssa.FieldAddr:
		return "&" + strings.TrimPrefix(expr(x.X, d+1), "&") + "." + fieldName(x.X.Type(), x.Field)
	case *ssa.Field:
		return expr(x.X, d+1) + "." + fieldName(x.X.Type(), x.Field)
	case *ssa.IndexAddr:
		return "&" + strings.TrimPrefix(expr(x.X, d+1), "&") + "[" + expr(x.Index, d+1) + "]"
	case *ssa.Index:
		return expr(x.X, d+1) + "[" + expr(x.Index, d+1) + "]"
	case *ssa.Lookup:
		return expr(x.X, d+1) + "[" + expr(x.Index, d+1) + "]"
	case *ssa.Slice:
		lo, hi := "", ""
		if x.Low != nil {
			lo = expr(x.Low, d+1)
		}
		if x.High != nil {
			hi = expr(x.High, d+1)
		}
		return expr(x.X, d+1) + "[" + lo + ":" + hi + "]"
	case *ssa.BinOp:
		if _, isCmp := negRelTok[x.Op]; isCmp {
			return cmpExpr(x.X, x.Op, x.Y, d)
		}
		switch x.Op {
		case token.ADD, token.MUL, token.AND, token.OR, token.XOR:
			// commutative and associative (on integers): one flat list of operands in a fixed order,
			// constants last - "4 + (a + b)", "(a + 4) + b" and "b + a + 4" render alike
			if !isStringType(x.Type()) {
				var terms, consts []string
				var collect func(v ssa.Value, dd int)
				collect = func(v ssa.Value, dd int) {
					if bo, ok := v.(*ssa.BinOp); ok && bo.Op == x.Op && dd < 24 && types.Identical(bo.Type(), x.Type()) {
						collect(bo.X, dd+1)
						collect(bo.Y, dd+1)
						return
					}
					if _, isC := v.(*ssa.Const); isC {
						consts = append(consts, expr(v, dd+1))
					} else {
						terms = append(terms, expr(v, dd+1))
					}
				}
				collect(x.X, d+1)
				collect(x.Y, d+1)
				sort.Strings(terms)
				sort.Strings(consts)
				return "(" + strings.Join(append(terms, consts...), " "+x.Op.String()+" ") + ")"
			}
		}
		return "(" + expr(x.X, d+1) + " " + x.Op.String() + " " + expr(x.Y, d+1) + ")"
	case *ssa.Convert:
		return TypeName(x.Type()) + "(" + expr(x.X, d+1) + ")"
	case *ssa.ChangeType:
		return expr(x.X, d+1)
	case *ssa.MakeInterface:
		return expr(x.X, d+1)
	case *ssa.ChangeInterface:
		return expr(x.X, d+1)
	case *ssa.Extract:
		return expr(x.Tuple, d+1) + fmt.Sprintf("#%d", x.Index)
	case *ssa.Call:
		var as []string
		for _, a := range x.Call.Args {
			as = append(as, expr(a, d+1))
		}
		n := CallName(x)
		if x.Call.IsInvoke() {
			as = append([]string{expr(x.Call.Value, d+1)}, as...)
		} else if n == "" || strings.HasPrefix(n, "?") {
			n = "dyn:" + expr(x.Call.Value, d+1)
		}
		return n + "(" + strings.Join(as, ", ") + ")"
	case *ssa.Phi:
		var one ssa.Value
		n := 0
		for _, e := range x.Edges {
			if c, ok := e.(*ssa.Const); ok && c.Value == nil && isNilable(c.Type()) {
				continue
			}
			if one == nil || e != one {
				one = e
				n++
			}
		}
		if n == 1 {
			return expr(one, d+1)
		}
		return fmt.Sprintf("phi:%s@b%d", x.Comment, x.Block().Index)
	case *ssa.Alloc:
		if x.Heap {
			return fmt.Sprintf("new:%s@%s", x.Comment, x.Name())
		}
		return fmt.Sprintf("local:%s@%s", x.Comment, x.Name())
	case *ssa.MakeSlice:
		return "make(" + expr(x.Len, d+1) + ")"
	case *ssa.MakeClosure:
		return "closure:" + x.Fn.Name()
	case *ssa.TypeAssert:
		return expr(x.X, d+1) + ".(" + TypeName(x.AssertedType) + ")"
	}
	return v.Name()
}

func isNilable(t types.Type) bool {
	switch t.Underlying().(type) {
	case *types.Pointer, *types.Slice, *types.Map, *types.Interface, *types.Chan, *types.Signature:
		return true
	}
	return false
}

func fieldName(t types.Type, i int) string {
	t = Deref(t)
	if st, ok := t.Underlying().(*types.Struct); ok && i < st.NumFields() {
		return st.Field(i).Name()
	}
	return fmt.Sprintf("#%d", i)
}

func relPkg(path string) string {
	const mod = "github.com/piotrnar/gocoin/"
	return strings.TrimPrefix(path, mod)
}

// PhiLeaves returns the non-phi values a value can take through any chain of phis.
func PhiLeaves(v ssa.Value) []ssa.Value {
	seen := map[ssa.Value]bool{}
	var out []ssa.Value
	var walk func(ssa.Value)
	walk = func(x ssa.Value) {
		if seen[x] {
			return
		}
		seen[x] = true
		if ph, ok := x.(*ssa.Phi); ok {
			for _, e := range ph.Edges {
				walk(e)
			}
			return
		}
		out = append(out, x)
	}
	walk(v)
	return out
}

// DomCond is a branch condition that holds whenever a block executes.
type DomCond struct {
	If   *ssa.If
	Cond string // rendering of the condition
	True bool
}

// DomConds lists the branch outcomes that dominate block b: for every dominator D of b that ends in an
// If, the successor S of D with S dominating b whose every other predecessor is itself dominated by S
// (a loop back edge) — so the only way into S, and hence into b, is that outcome of D.
func DomConds(b *ssa.BasicBlock) []DomCond {
	var out []DomCond
	for d := b.Idom(); d != nil; d = d.Idom() {
		iff, ok := d.Instrs[len(d.Instrs)-1].(*ssa.If)
		if !ok {
			continue
		}
		for k, s := range d.Succs {
			if s != b && !s.Dominates(b) {
				continue
			}
			if d.Succs[0] == d.Succs[1] {
				continue
			}
			only := true
			for _, pr := range s.Preds {
				if pr != d && !s.Dominates(pr) {
					only = false
				}
			}
			if only {
				out = append(out, DomCond{If: iff, Cond: Expr(iff.Cond), True: k == 0})
				out = impliedConds(iff, iff.Cond, k == 0, out, 0)
			}
		}
	}
	return out
}

// impliedConds: a branch on a boolean that was computed as a value - "case a && b:" of a tagless switch,
// "x := a || b; if x" - is a branch on a phi with constant edges from the short-circuit exits.  On the side
// where the phi differs from those constants, every operand is known: the last operand has the phi's value
// and each short-circuit test went the way that continues the evaluation.  A negation flips the polarity.
func impliedConds(iff *ssa.If, cond ssa.Value, truth bool, out []DomCond, depth int) []DomCond {
	if depth > 4 {
		return out
	}
	if u, ok := cond.(*ssa.UnOp); ok && u.Op == token.NOT {
		out = append(out, DomCond{If: iff, Cond: Expr(u.X), True: !truth})
		return impliedConds(iff, u.X, !truth, out, depth+1)
	}
	phi, ok := cond.(*ssa.Phi)
	if !ok {
		return out
	}
	blk := phi.Block()
	var rest []int
	constVal, haveConst := false, false
	for i, e := range phi.Edges {
		if c, isC := e.(*ssa.Const); isC && c.Value != nil && c.Value.Kind() == constant.Bool {
			v := constant.BoolVal(c.Value)
			if haveConst && v != constVal {
				return out
			}
			constVal, haveConst = v, true
		} else {
			rest = append(rest, i)
		}
	}
	if !haveConst || len(rest) != 1 || truth == constVal {
		return out
	}
	// the value came through the one computed edge
	v := phi.Edges[rest[0]]
	out = append(out, DomCond{If: iff, Cond: Expr(v), True: truth})
	out = impliedConds(iff, v, truth, out, depth+1)
	for i, e := range phi.Edges {
		if _, isC := e.(*ssa.Const); !isC || i >= len(blk.Preds) {
			continue
		}
		pr := blk.Preds[i]
		pif, ok := pr.Instrs[len(pr.Instrs)-1].(*ssa.If)
		if !ok || len(pr.Succs) != 2 || pr.Succs[0] == pr.Succs[1] {
			continue
		}
		// the short-circuit exit was not taken
		dir := pr.Succs[1] == blk // exit on false => the test was true
		out = append(out, DomCond{If: pif, Cond: Expr(pif.Cond), True: dir})
		out = impliedConds(pif, pif.Cond, dir, out, depth+1)
	}
	return out
}

// EdgeConds lists the branch outcomes that hold when control enters block to from its predecessor from.
func EdgeConds(from, to *ssa.BasicBlock) []DomCond {
	out := DomConds(from)
	if iff, ok := from.Instrs[len(from.Instrs)-1].(*ssa.If); ok && from.Succs[0] != from.Succs[1] {
		first := impliedConds(iff, iff.Cond, from.Succs[0] == to, []DomCond{{If: iff, Cond: Expr(iff.Cond), True: from.Succs[0] == to}}, 0)
		out = append(first, out...)
	}
	return out
}

// HasCond reports whether the list contains the condition with the given polarity. A negated form is
// matched as well: "x != y" true is "x == y" false.
func HasCond(cs []DomCond, cond string, val bool) bool {
	neg := negCond(cond)
	same := []string{cond}
	if f := flipCond(cond); f != "" {
		same = append(same, f)
	}
	var opp []string
	if neg != "" {
		opp = append(opp, neg)
		if f := flipCond(neg); f != "" {
			opp = append(opp, f)
		}
	}
	for _, c := range cs {
		for _, p := range same {
			if c.Cond == p && c.True == val {
				return true
			}
		}
		for _, p := range opp {
			if c.Cond == p && c.True == !val {
				return true
			}
		}
	}
	return false
}

func negCond(c string) string {
	for _, p := range [][2]string{{" == ", " != "}, {" != ", " == "}, {" < ", " >= "}, {" >= ", " < "}, {" > ", " <= "}, {" <= ", " > "}} {
		// only the outermost operator: the rendering is "(X op Y)" with balanced parentheses
		if !strings.HasPrefix(c, "(") || !strings.HasSuffix(c, ")") {
			return ""
		}
		depth := 0
		for i := 1; i < len(c)-1; i++ {
			switch c[i] {
			case '(', '[':
				depth++
			case ')', ']':
				depth--
			}
			if depth == 0 && strings.HasPrefix(c[i:], p[0]) {
				return c[:i] + p[1] + c[i+len(p[0]):]
			}
		}
	}
	return ""
}

// BoolOperand is one operand of a short-circuit expression together with the value it must have had.
type BoolOperand struct {
	V    ssa.Value
	True bool
}

// BoolPhiOperands: for a boolean phi with constant edges (a && b / a || b computed as a value) and an
// observed value that differs from those constants, the operands and the values they had: the computed
// edge carries the observed value, each short-circuit test went the way that continues the evaluation.
func BoolPhiOperands(phi *ssa.Phi, truth bool) []BoolOperand {
	blk := phi.Block()
	var rest []int
	constVal, haveConst := false, false
	for i, e := range phi.Edges {
		if c, isC := e.(*ssa.Const); isC && c.Value != nil && c.Value.Kind() == constant.Bool {
			v := constant.BoolVal(c.Value)
			if haveConst && v != constVal {
				return nil
			}
			constVal, haveConst = v, true
		} else {
			rest = append(rest, i)
		}
	}
	if !haveConst || len(rest) != 1 || truth == constVal {
		return nil
	}
	out := []BoolOperand{{phi.Edges[rest[0]], truth}}
	for i, e := range phi.Edges {
		if _, isC := e.(*ssa.Const); !isC || i >= len(blk.Preds) {
			continue
		}
		pr := blk.Preds[i]
		pif, ok := pr.Instrs[len(pr.Instrs)-1].(*ssa.If)
		if !ok || len(pr.Succs) != 2 || pr.Succs[0] == pr.Succs[1] {
			continue
		}
		out = append(out, BoolOperand{pif.Cond, pr.Succs[1] == blk})
	}
	return out
}

// Cmp gives the comparison that holds at this point in normal form: negated when the branch outcome is
// false, and with a constant operand (if there is one) on the right.
func (dc DomCond) Cmp() (x, y ssa.Value, rel token.Token, ok bool) {
	x, y, rel, ok = CondCmp(dc.If.Cond)
	if !ok {
		return
	}
	if !dc.True {
		rel = negRel(rel)
	}
	if _, xc := x.(*ssa.Const); xc {
		if _, yc := y.(*ssa.Const); !yc {
			x, y, rel = y, x, flipRel(rel)
		}
	}
	return
}

var negRelTok = map[token.Token]token.Token{token.LSS: token.GEQ, token.GEQ: token.LSS, token.GTR: token.LEQ, token.LEQ: token.GTR, token.EQL: token.NEQ, token.NEQ: token.EQL}
var flipRelTok = map[token.Token]token.Token{token.LSS: token.GTR, token.GTR: token.LSS, token.LEQ: token.GEQ, token.GEQ: token.LEQ, token.EQL: token.EQL, token.NEQ: token.NEQ}

func isStringType(t types.Type) bool {
	b, ok := t.Underlying().(*types.Basic)
	return ok && b.Info()&types.IsString != 0
}

// cmpExpr renders a comparison in one canonical form, whichever way it is written in the source: a constant
// operand stands on the right ("0 == x" is "x == 0"); between two non-constant operands the relation is
// "<" or "<=" ("a > b" is "b < a"), and for == / != the operands are ordered by their rendering.
func cmpExpr(x ssa.Value, op token.Token, y ssa.Value, d int) string {
	_, xc := x.(*ssa.Const)
	_, yc := y.(*ssa.Const)
	l, r := expr(x, d+1), expr(y, d+1)
	swap := false
	switch {
	case xc && !yc:
		swap = true
	case !xc && !yc:
		switch op {
		case token.GTR, token.GEQ:
			swap = true
		case token.EQL, token.NEQ:
			swap = r < l
		}
	}
	if swap {
		l, r, op = r, l, flipRelTok[op]
	}
	return "(" + l + " " + op.String() + " " + r + ")"
}

// flipCond: "(A op B)" written from the other side, "(B op' A)".
func flipCond(c string) string {
	if !strings.HasPrefix(c, "(") || !strings.HasSuffix(c, ")") {
		return ""
	}
	for _, p := range [][2]string{{" == ", " == "}, {" != ", " != "}, {" <= ", " >= "}, {" >= ", " <= "}, {" < ", " > "}, {" > ", " < "}} {
		depth := 0
		for i := 1; i < len(c)-1; i++ {
			switch c[i] {
			case '(', '[':
				depth++
			case ')', ']':
				depth--
			}
			if depth == 0 && strings.HasPrefix(c[i:], p[0]) {
				return "(" + c[i+len(p[0]):len(c)-1] + p[1] + c[1:i] + ")"
			}
		}
	}
	return ""
}

// LinForm reads an integer expression as a linear form over the renderings of its non-arithmetic leaves:
// sums, differences, products with a constant and left shifts by a constant are expanded, conversions are
// looked through (widths are not modelled).  The constant term has the key "".  Independent of how the
// source associates, orders or factors the expression: 4*(80+x), (x+80)*4 and 320+4*x give the same form.
func LinForm(v ssa.Value) map[string]int64 { return LinFormWith(v, nil) }

// LinFormWith is LinForm with merges resolved: where sel gives a replacement for a value (the incoming value
// of a phi on the path under consideration), the form continues through the replacement.
func LinFormWith(v ssa.Value, sel func(ssa.Value) ssa.Value) map[string]int64 {
	out := map[string]int64{}
	var add func(v ssa.Value, k int64, d int)
	add = func(v ssa.Value, k int64, d int) {
		if d > 30 {
			out[Expr(v)] += k
			return
		}
		if sel != nil {
			if w := sel(v); w != nil && w != v {
				add(w, k, d+1)
				return
			}
		}
		switch x := v.(type) {
		case *ssa.Const:
			if c, ok := ConstOf(x); ok && c.IsInt64() {
				out[""] += k * c.Int64()
				return
			}
		case *ssa.Convert:
			if _, _, ok := intRange(x.X.Type()); ok {
				add(x.X, k, d+1)
				return
			}
		case *ssa.ChangeType:
			add(x.X, k, d+1)
			return
		case *ssa.BinOp:
			switch x.Op {
			case token.ADD:
				if !isStringType(x.Type()) {
					add(x.X, k, d+1)
					add(x.Y, k, d+1)
					return
				}
			case token.SUB:
				add(x.X, k, d+1)
				add(x.Y, -k, d+1)
				return
			case token.MUL:
				if c, ok := ConstOf(x.X); ok && c.IsInt64() {
					add(x.Y, k*c.Int64(), d+1)
					return
				}
				if c, ok := ConstOf(x.Y); ok && c.IsInt64() {
					add(x.X, k*c.Int64(), d+1)
					return
				}
			case token.SHL:
				if c, ok := ConstOf(x.Y); ok && c.IsInt64() && c.Int64() < 32 {
					add(x.X, k<<uint(c.Int64()), d+1)
					return
				}
			}
		}
		out[Expr(v)] += k
	}
	add(v, 1, 0)
	for a, k := range out {
		if k == 0 {
			delete(out, a)
		}
	}
	return out
}

// LinString renders a linear form in a fixed order ("3*a + b + 4").
func LinString(l map[string]int64) string {
	var ks []string
	for a := range l {
		if a != "" {
			ks = append(ks, a)
		}
	}
	sort.Strings(ks)
	var parts []string
	for _, a := range ks {
		if l[a] == 1 {
			parts = append(parts, a)
		} else {
			parts = append(parts, fmt.Sprintf("%d*%s", l[a], a))
		}
	}
	if c, ok := l[""]; ok {
		parts = append(parts, fmt.Sprint(c))
	}
	if len(parts) == 0 {
		return "0"
	}
	return strings.Join(parts, " + ")
}

var reAnonPhi = regexp.MustCompile(`phi:[^@\s\)\]\[,]*@b\d+`)
var reAnonAlloc = regexp.MustCompile(`(new|local):[^@\s\)\]\[,]*@t\d+`)
var reAnonFree = regexp.MustCompile(`free:[A-Za-z_0-9]+`)

// Anon removes from a rendering what depends on the names chosen for local variables and on block or
// register numbers: "phi:i@b23" -> "phi", "local:buf@t4" -> "local", "free:db" -> "free".
func Anon(e string) string {
	e = reAnonPhi.ReplaceAllString(e, "phi")
	e = reAnonAlloc.ReplaceAllString(e, "$1")
	return reAnonFree.ReplaceAllString(e, "free")
}

// CanonInstr renders the construct an index / slice / allocation obligation is about in canonical,
// name-independent form: base[index], base[lo:hi], make(len).
func CanonInstr(ins ssa.Instruction) string {
	switch x := ins.(type) {
	case *ssa.IndexAddr:
		return Anon(strings.TrimPrefix(Expr(x.X), "&") + "[" + Expr(x.Index) + "]")
	case *ssa.Index:
		return Anon(Expr(x.X) + "[" + Expr(x.Index) + "]")
	case *ssa.Lookup:
		return Anon(Expr(x.X) + "[" + Expr(x.Index) + "]")
	case *ssa.Slice:
		return Anon(Expr(x))
	case *ssa.MakeSlice:
		return Anon("make(" + Expr(x.Len) + ")")
	case *ssa.If:
		return Anon(Expr(x.Cond))
	}
	if v, ok := ins.(ssa.Value); ok {
		return Anon(Expr(v))
	}
	return ""
}

// FieldNameOf: the name of the field a FieldAddr selects.
func FieldNameOf(fa *ssa.FieldAddr) string { return fieldName(fa.X.Type(), fa.Field) }

// rangeIndexOf: v is the current index of a range loop - the increment "counter + 1" of a phi that starts
// at -1 and takes that same increment on the way round; returns the counter phi.
func rangeIndexOf(v ssa.Value) *ssa.Phi {
	bo, ok := v.(*ssa.BinOp)
	if !ok || bo.Op != token.ADD {
		return nil
	}
	ph, ok := bo.X.(*ssa.Phi)
	if !ok || len(ph.Edges) != 2 {
		return nil
	}
	if c, isC := bo.Y.(*ssa.Const); !isC || c.Value == nil || c.Value.Kind() != constant.Int || c.Value.ExactString() != "1" {
		return nil
	}
	start, back := false, false
	for _, e := range ph.Edges {
		if c, isC := e.(*ssa.Const); isC && c.Value != nil && c.Value.Kind() == constant.Int && c.Value.ExactString() == "-1" {
			start = true
		}
		if e == v {
			back = true
		}
	}
	if start && back {
		return ph
	}
	return nil
}

package an

import (
	"fmt"
	"go/token"
	"go/types"
	"strings"

	"golang.org/x/tools/go/ssa"
)

// Expr renders an SSA value as a canonical expression over parameters, globals, constants, field and
// element selections, calls and phis. go/ssa does no common-subexpression elimination, so two reads of
// the same location are different values; their renderings are equal, which is what the rules that
// compare "the same k" or "the same element" need. Memory is not versioned: two equal renderings of a
// load are the same location, not necessarily the same content.
//
// A phi whose edges are one value and nil constants renders as that value (a pointer used after the
// nil test); any other phi renders by identity (name and block).
func Expr(v ssa.Value) string { return expr(v, 0) }

func expr(v ssa.Value, d int) string {
	if v == nil {
		return "_"
	}
	if d > 24 {
		return "…"
	}
	switch x := v.(type) {
	case *ssa.Const:
		if x.Value == nil {
			return "nil"
		}
		return x.Value.ExactString()
	case *ssa.Global:
		pk := ""
		if x.Pkg != nil {
			pk = relPkg(x.Pkg.Pkg.Path()) + "."
		}
		return "&" + pk + x.Name()
	case *ssa.Parameter:
		for i, p := range x.Parent().Params {
			if p == x {
				return fmt.Sprintf("param#%d", i)
			}
		}
		return x.Name()
	case *ssa.FreeVar:
		return "free:" + x.Name()
	case *ssa.Function:
		return "func:" + x.String()
	case *ssa.UnOp:
		if x.Op == token.MUL {
			// a load of a field/element address reads the field/element
			in := expr(x.X, d+1)
			if strings.HasPrefix(in, "&") {
				return in[1:]
			}
			return "*" + in
		}
		return x.Op.String() + expr(x.X, d+1)
	case *ssa.FieldAddr:
		return "&" + strings.TrimPrefix(expr(x.X, d+1), "&") + "." + fieldName(x.X.Type(), x.Field)
	case *ssa.Field:
		return expr(x.X, d+1) + "." + fieldName(x.X.Type(), x.Field)
	case *ssa.IndexAddr:
		return "&" + strings.TrimPrefix(expr(x.X, d+1), "&") + "[" + expr(x.Index, d+1) + "]"
	case *ssa.Index:
		return expr(x.X, d+1) + "[" + expr(x.Index, d+1) + "]"
	case *ssa.Lookup:
		return expr(x.X, d+1) + "[" + expr(x.Index, d+1) + "]"
	case *ssa.Slice:
		lo, hi := "", ""
		if x.Low != nil {
			lo = expr(x.Low, d+1)
		}
		if x.High != nil {
			hi = expr(x.High, d+1)
		}
		return expr(x.X, d+1) + "[" + lo + ":" + hi + "]"
	case *ssa.BinOp:
		return "(" + expr(x.X, d+1) + " " + x.Op.String() + " " + expr(x.Y, d+1) + ")"
	case *ssa.Convert:
		return TypeName(x.Type()) + "(" + expr(x.X, d+1) + ")"
	case *ssa.ChangeType:
		return expr(x.X, d+1)
	case *ssa.MakeInterface:
		return expr(x.X, d+1)
	case *ssa.ChangeInterface:
		return expr(x.X, d+1)
	case *ssa.Extract:
		return expr(x.Tuple, d+1) + fmt.Sprintf("#%d", x.Index)
	case *ssa.Call:
		var as []string
		for _, a := range x.Call.Args {
			as = append(as, expr(a, d+1))
		}
		n := CallName(x)
		if x.Call.IsInvoke() {
			as = append([]string{expr(x.Call.Value, d+1)}, as...)
		} else if n == "" || strings.HasPrefix(n, "?") {
			n = "dyn:" + expr(x.Call.Value, d+1)
		}
		return n + "(" + strings.Join(as, ", ") + ")"
	case *ssa.Phi:
		var one ssa.Value
		n := 0
		for _, e := range x.Edges {
			if c, ok := e.(*ssa.Const); ok && c.Value == nil && isNilable(c.Type()) {
				continue
			}
			if one == nil || e != one {
				one = e
				n++
			}
		}
		if n == 1 {
			return expr(one, d+1)
		}
		return fmt.Sprintf("phi:%s@b%d", x.Comment, x.Block().Index)
	case *ssa.Alloc:
		if x.Heap {
			return fmt.Sprintf("new:%s@%s", x.Comment, x.Name())
		}
		return fmt.Sprintf("local:%s@%s", x.Comment, x.Name())
	case *ssa.MakeSlice:
		return "make(" + expr(x.Len, d+1) + ")"
	case *ssa.MakeClosure:
		return "closure:" + x.Fn.Name()
	case *ssa.TypeAssert:
		return expr(x.X, d+1) + ".(" + TypeName(x.AssertedType) + ")"
	}
	return v.Name()
}

func isNilable(t types.Type) bool {
	switch t.Underlying().(type) {
	case *types.Pointer, *types.Slice, *types.Map, *types.Interface, *types.Chan, *types.Signature:
		return true
	}
	return false
}

func fieldName(t types.Type, i int) string {
	t = Deref(t)
	if st, ok := t.Underlying().(*types.Struct); ok && i < st.NumFields() {
		return st.Field(i).Name()
	}
	return fmt.Sprintf("#%d", i)
}

func relPkg(path string) string {
	const mod = "github.com/piotrnar/gocoin/"
	return strings.TrimPrefix(path, mod)
}

// PhiLeaves returns the non-phi values a value can take through any chain of phis.
func PhiLeaves(v ssa.Value) []ssa.Value {
	seen := map[ssa.Value]bool{}
	var out []ssa.Value
	var walk func(ssa.Value)
	walk = func(x ssa.Value) {
		if seen[x] {
			return
		}
		seen[x] = true
		if ph, ok := x.(*ssa.Phi); ok {
			for _, e := range ph.Edges {
				walk(e)
			}
			return
		}
		out = append(out, x)
	}
	walk(v)
	return out
}

// DomCond is a branch condition that holds whenever a block executes.
type DomCond struct {
	If   *ssa.If
	Cond string // rendering of the condition
	True bool
}

// DomConds lists the branch outcomes that dominate block b: for every dominator D of b that ends in an
// If, the successor S of D with S dominating b whose every other predecessor is itself dominated by S
// (a loop back edge) — so the only way into S, and hence into b, is that outcome of D.
func DomConds(b *ssa.BasicBlock) []DomCond {
	var out []DomCond
	for d := b.Idom(); d != nil; d = d.Idom() {
		iff, ok := d.Instrs[len(d.Instrs)-1].(*ssa.If)
		if !ok {
			continue
		}
		for k, s := range d.Succs {
			if s != b && !s.Dominates(b) {
				continue
			}
			if d.Succs[0] == d.Succs[1] {
				continue
			}
			only := true
			for _, pr := range s.Preds {
				if pr != d && !s.Dominates(pr) {
					only = false
				}
			}
			if only {
				out = append(out, DomCond{If: iff, Cond: Expr(iff.Cond), True: k == 0})
			}
		}
	}
	return out
}

// EdgeConds lists the branch outcomes that hold when control enters block to from its predecessor from.
func EdgeConds(from, to *ssa.BasicBlock) []DomCond {
	out := DomConds(from)
	if iff, ok := from.Instrs[len(from.Instrs)-1].(*ssa.If); ok && from.Succs[0] != from.Succs[1] {
		out = append([]DomCond{{If: iff, Cond: Expr(iff.Cond), True: from.Succs[0] == to}}, out...)
	}
	return out
}

// HasCond reports whether the list contains the condition with the given polarity. A negated form is
// matched as well: "x != y" true is "x == y" false.
func HasCond(cs []DomCond, cond string, val bool) bool {
	neg := negCond(cond)
	for _, c := range cs {
		if c.Cond == cond && c.True == val {
			return true
		}
		if neg != "" && c.Cond == neg && c.True == !val {
			return true
		}
	}
	return false
}

func negCond(c string) string {
	for _, p := range [][2]string{{" == ", " != "}, {" != ", " == "}, {" < ", " >= "}, {" >= ", " < "}, {" > ", " <= "}, {" <= ", " > "}} {
		// only the outermost operator: the rendering is "(X op Y)" with balanced parentheses
		if !strings.HasPrefix(c, "(") || !strings.HasSuffix(c, ")") {
			return ""
		}
		depth := 0
		for i := 1; i < len(c)-1; i++ {
			switch c[i] {
			case '(', '[':
				depth++
			case ')', ']':
				depth--
			}
			if depth == 0 && strings.HasPrefix(c[i:], p[0]) {
				return c[:i] + p[1] + c[i+len(p[0]):]
			}
		}
	}
	return ""
}

package an

// E-MAG (a): interval abstract interpretation of straight-line unsigned limb
// arithmetic (the bodies of Field.Mul/Sqr/Normalize/... in both layouts).
// 128-bit accumulators built from bits.Mul64/bits.Add64 pairs are tracked as
// "wide" values; every discarded carry-out becomes an obligation (the sum must
// fit 128 bits), every uint64/uint32 operation must not wrap.

import (
	"fmt"
	"go/token"
	"go/types"
	"math/big"
	"sort"
	"strings"

	"gcv/internal/core"

	"golang.org/x/tools/go/ssa"
)

type IV struct{ Lo, Hi *big.Int }

func ivConst(b *big.Int) IV      { return IV{new(big.Int).Set(b), new(big.Int).Set(b)} }
func ivRange(lo, hi *big.Int) IV { return IV{new(big.Int).Set(lo), new(big.Int).Set(hi)} }
func (a IV) add(b IV) IV         { return IV{new(big.Int).Add(a.Lo, b.Lo), new(big.Int).Add(a.Hi, b.Hi)} }
func (a IV) mul(b IV) IV         { return IV{new(big.Int).Mul(a.Lo, b.Lo), new(big.Int).Mul(a.Hi, b.Hi)} } // non-negative operands
func (a IV) shr(k uint) IV       { return IV{new(big.Int).Rsh(a.Lo, k), new(big.Int).Rsh(a.Hi, k)} }
func (a IV) shl(k uint) IV       { return IV{new(big.Int).Lsh(a.Lo, k), new(big.Int).Lsh(a.Hi, k)} }
func (a IV) join(b IV) IV {
	lo, hi := a.Lo, a.Hi
	if b.Lo.Cmp(lo) < 0 {
		lo = b.Lo
	}
	if b.Hi.Cmp(hi) > 0 {
		hi = b.Hi
	}
	return IV{new(big.Int).Set(lo), new(big.Int).Set(hi)}
}
func (a IV) String() string { return fmt.Sprintf("[%s, 0x%s]", a.Lo.String(), a.Hi.Text(16)) }

var (
	two64  = new(big.Int).Lsh(big.NewInt(1), 64)
	two128 = new(big.Int).Lsh(big.NewInt(1), 128)
	max64  = new(big.Int).Sub(two64, big.NewInt(1))
)

type wide struct{ iv IV }

type lval struct {
	kind  int // 0 plain, 1 loOf, 2 hiOf, 3 carry(of pending), 4 tuple
	iv    IV
	w     *wide
	pend  *pending
	tuple []*lval
}

type pending struct {
	wa, wb *wide
	sum    *wide
	used   bool
}

// LimbIssue is a problem found by the interpreter.
type LimbIssue struct {
	Pos  token.Pos
	What string
}

type LimbResult struct {
	Out     map[string]IV // "param.n[i]" -> interval of the value stored
	Issues  []LimbIssue
	Steps   int
	Returns []IV // interval of integer return values (first result)
}

type limbInterp struct {
	prog       *core.Program
	fn         *ssa.Function
	in         func(param string, limb int) (IV, bool)
	consts     map[string]*big.Int // parameter name -> constant value
	vals       map[ssa.Value]*lval
	res        *LimbResult
	shifts     map[string]*wide
	stored     map[string]bool
	pred       *ssa.BasicBlock
	infeasible bool
	outPath    map[string]IV // values stored on this path
}

// InterpretLimbs runs the interval interpretation of fn. in() gives the range of
// limb i of the Field pointed to by the named parameter; consts binds integer
// parameters to constants.
func InterpretLimbs(prog *core.Program, fn *ssa.Function, in func(param string, limb int) (IV, bool), consts map[string]*big.Int) *LimbResult {
	li := &limbInterp{prog: prog, fn: fn, in: in, consts: consts, vals: map[ssa.Value]*lval{}, res: &LimbResult{Out: map[string]IV{}},
		shifts: map[string]*wide{}, stored: map[string]bool{}, outPath: map[string]IV{}}
	// the limb functions are DAGs (straight-line code with a few branches): every path is
	// interpreted separately, with phis resolved by the incoming edge and plain values
	// refined by the branch conditions taken; outputs are joined over the paths
	order := rpo(fn)
	idx := map[*ssa.BasicBlock]int{}
	for i, b := range order {
		idx[b] = i
	}
	for _, b := range order {
		for _, s := range b.Succs {
			if idx[s] <= idx[b] && s != fn.Recover {
				li.issue(token.NoPos, "loop in limb code: not supported by the interval interpreter")
				return li.res
			}
		}
	}
	paths := 0
	var walk func(b, pred *ssa.BasicBlock, st *limbInterp)
	walk = func(b, pred *ssa.BasicBlock, st *limbInterp) {
		if b == fn.Recover {
			return
		}
		st.pred = pred
		for _, ins := range b.Instrs {
			st.step(ins)
		}
		if len(b.Succs) == 0 {
			paths++
			return
		}
		if paths > 256 {
			st.issue(token.NoPos, "too many paths for the interval interpreter")
			return
		}
		if len(b.Succs) == 1 {
			walk(b.Succs[0], b, st)
			return
		}
		iff, _ := b.Instrs[len(b.Instrs)-1].(*ssa.If)
		for i, s := range b.Succs {
			ns := st.fork()
			if iff != nil {
				ns.refine(iff.Cond, i == 0)
			}
			if !ns.infeasible {
				walk(s, b, ns)
			}
		}
	}
	walk(fn.Blocks[0], nil, li)
	return li.res
}

// fork copies the per-path state (results are shared and joined).
func (li *limbInterp) fork() *limbInterp {
	n := &limbInterp{prog: li.prog, fn: li.fn, in: li.in, consts: li.consts, vals: make(map[ssa.Value]*lval, len(li.vals)), res: li.res,
		shifts: li.shifts, stored: map[string]bool{}, outPath: map[string]IV{}}
	for k, v := range li.vals {
		n.vals[k] = v
	}
	for k, v := range li.stored {
		n.stored[k] = v
	}
	for k, v := range li.outPath {
		n.outPath[k] = v
	}
	return n
}

// refine narrows plain values compared with constants along the taken edge.
func (li *limbInterp) refine(cond ssa.Value, truth bool) {
	x, y, rel, ok := CondCmp(cond)
	if !ok {
		return
	}
	if !truth {
		rel = negRel(rel)
	}
	var v ssa.Value
	var k *big.Int
	if c, isC := ConstOf(y); isC {
		v, k = x, c
	} else if c, isC := ConstOf(x); isC {
		v, k = y, c
		rel = flipRel(rel)
	} else {
		return
	}
	cur := li.get(v)
	if cur.kind != 0 {
		return
	}
	lo, hi := new(big.Int).Set(cur.iv.Lo), new(big.Int).Set(cur.iv.Hi)
	one := big.NewInt(1)
	switch rel {
	case token.LSS:
		if h := new(big.Int).Sub(k, one); h.Cmp(hi) < 0 {
			hi = h
		}
	case token.LEQ:
		if k.Cmp(hi) < 0 {
			hi = new(big.Int).Set(k)
		}
	case token.GTR:
		if l := new(big.Int).Add(k, one); l.Cmp(lo) > 0 {
			lo = l
		}
	case token.GEQ:
		if k.Cmp(lo) > 0 {
			lo = new(big.Int).Set(k)
		}
	case token.EQL:
		if k.Cmp(lo) > 0 {
			lo = new(big.Int).Set(k)
		}
		if k.Cmp(hi) < 0 {
			hi = new(big.Int).Set(k)
		}
	}
	if lo.Cmp(hi) > 0 {
		li.infeasible = true
		return
	}
	li.vals[v] = &lval{iv: IV{lo, hi}}
}

func rpo(fn *ssa.Function) []*ssa.BasicBlock {
	seen := map[*ssa.BasicBlock]bool{}
	var post []*ssa.BasicBlock
	var dfs func(b *ssa.BasicBlock)
	dfs = func(b *ssa.BasicBlock) {
		if seen[b] {
			return
		}
		seen[b] = true
		for _, s := range b.Succs {
			dfs(s)
		}
		post = append(post, b)
	}
	dfs(fn.Blocks[0])
	for i, j := 0, len(post)-1; i < j; i, j = i+1, j-1 {
		post[i], post[j] = post[j], post[i]
	}
	return post
}

func (li *limbInterp) issue(pos token.Pos, format string, a ...interface{}) {
	li.res.Issues = append(li.res.Issues, LimbIssue{pos, fmt.Sprintf(format, a...)})
}

func typeMax(t types.Type) *big.Int {
	_, hi, ok := intRange(t)
	if !ok {
		return new(big.Int).Set(max64)
	}
	return hi
}

// plain coerces an abstract value to an interval of its 64-bit content.
func (li *limbInterp) plain(v *lval) IV {
	switch v.kind {
	case 0:
		return v.iv
	case 1: // low 64 bits of a wide
		if v.w.iv.Hi.Cmp(two64) < 0 {
			return v.w.iv
		}
		return IV{new(big.Int), new(big.Int).Set(max64)}
	case 2:
		return v.w.iv.shr(64)
	case 3:
		return IV{new(big.Int), big.NewInt(1)}
	}
	return IV{new(big.Int), new(big.Int).Set(max64)}
}

func (li *limbInterp) get(v ssa.Value) *lval {
	if x, ok := li.vals[v]; ok {
		return x
	}
	switch c := v.(type) {
	case *ssa.Const:
		if b, ok := ConstOf(c); ok {
			return &lval{iv: ivConst(b)}
		}
		// bool / nil
		return &lval{iv: IV{new(big.Int), big.NewInt(1)}}
	case *ssa.Parameter:
		if k, ok := li.consts[paramTag(c)]; ok {
			return &lval{iv: ivConst(k)}
		}
		if lo, hi, ok := intRange(c.Type()); ok && lo.Sign() == 0 {
			return &lval{iv: ivRange(lo, hi)}
		}
	}
	return &lval{iv: IV{new(big.Int), typeMax(v.Type())}}
}

// limbAddr recognises &p.n[i] for a parameter p (possibly through a local copy of the pointer).
func (li *limbInterp) limbAddr(v ssa.Value) (string, int, bool) {
	ia, ok := v.(*ssa.IndexAddr)
	if !ok {
		return "", 0, false
	}
	k, isC := ConstOf(ia.Index)
	if !isC {
		return "", 0, false
	}
	fa, ok := ia.X.(*ssa.FieldAddr)
	if !ok {
		return "", 0, false
	}
	base := fa.X
	for {
		if u, ok := base.(*ssa.UnOp); ok && u.Op == token.MUL {
			if a, ok := u.X.(*ssa.Alloc); ok {
				// spilled parameter
				var sv ssa.Value
				for _, r := range *a.Referrers() {
					if st, ok := r.(*ssa.Store); ok && st.Addr == ssa.Value(a) {
						sv = st.Val
					}
				}
				if sv != nil {
					base = sv
					continue
				}
			}
		}
		break
	}
	p, ok := base.(*ssa.Parameter)
	if !ok {
		return "", 0, false
	}
	return paramTag(p), int(k.Int64()), true
}

func (li *limbInterp) step(ins ssa.Instruction) {
	li.res.Steps++
	switch x := ins.(type) {
	case *ssa.UnOp:
		if x.Op == token.MUL {
			if p, i, ok := li.limbAddr(x.X); ok {
				if li.stored[fmt.Sprintf("%s.n[%d]", p, i)] {
					// reading a limb that this function already overwrote: value = what was stored
					li.vals[x] = &lval{iv: li.outPath[fmt.Sprintf("%s.n[%d]", p, i)]}
					return
				}
				// alias safety at the limb level: limb i of another parameter must not have been
				// written before limb i of this one is read (r may alias a)
				for k := range li.stored {
					var q string
					var j int
					fmt.Sscanf(strings.Replace(k, ".n[", " ", 1), "%s %d]", &q, &j)
					if q != p && j == i {
						li.issue(x.Pos(), "limb %d of %s is read after limb %d of %s was written: wrong when %s aliases %s", i, p, j, q, q, p)
					}
				}
				if iv, ok := li.in(p, i); ok {
					li.vals[x] = &lval{iv: iv}
					return
				}
			}
			li.vals[x] = &lval{iv: IV{new(big.Int), typeMax(x.Type())}}
			return
		}
		if x.Op == token.NOT {
			li.vals[x] = &lval{iv: IV{new(big.Int), big.NewInt(1)}}
			return
		}
		li.vals[x] = &lval{iv: IV{new(big.Int), typeMax(x.Type())}}
	case *ssa.Store:
		if p, i, ok := li.limbAddr(x.Addr); ok {
			key := fmt.Sprintf("%s.n[%d]", p, i)
			iv := li.plain(li.get(x.Val))
			li.outPath[key] = iv
			li.stored[key] = true
			if old, ok := li.res.Out[key]; ok {
				li.res.Out[key] = old.join(iv)
			} else {
				li.res.Out[key] = iv
			}
		}
	case *ssa.Convert:
		v := li.plain(li.get(x.X))
		max := typeMax(x.Type())
		if v.Hi.Cmp(max) > 0 {
			// truncating conversion: only the low bits survive
			li.vals[x] = &lval{iv: IV{new(big.Int), max}}
		} else {
			li.vals[x] = &lval{iv: v}
		}
	case *ssa.Phi:
		b := x.Block()
		for i, p := range b.Preds {
			if p == li.pred {
				li.vals[x] = li.get(x.Edges[i])
				return
			}
		}
		li.vals[x] = &lval{iv: IV{new(big.Int), typeMax(x.Type())}}
	case *ssa.BinOp:
		li.binop(x)
	case *ssa.Call:
		li.call(x)
	case *ssa.Extract:
		t := li.get(x.Tuple)
		if t.kind == 4 && x.Index < len(t.tuple) {
			li.vals[x] = t.tuple[x.Index]
		} else {
			li.vals[x] = &lval{iv: IV{new(big.Int), typeMax(x.Type())}}
		}
	case *ssa.Return:
		if len(x.Results) > 0 {
			if _, _, ok := intRange(x.Results[0].Type()); ok {
				li.res.Returns = append(li.res.Returns, li.plain(li.get(x.Results[0])))
			}
		}
	}
}

func isConst(v ssa.Value) bool { _, ok := v.(*ssa.Const); return ok }

func (li *limbInterp) binop(x *ssa.BinOp) {
	a, b := li.get(x.X), li.get(x.Y)
	max := typeMax(x.Type())
	// exact folding of singleton operands for the bitwise operators
	if a.kind == 0 && b.kind == 0 && a.iv.Lo.Cmp(a.iv.Hi) == 0 && b.iv.Lo.Cmp(b.iv.Hi) == 0 {
		var r *big.Int
		switch x.Op {
		case token.AND:
			r = new(big.Int).And(a.iv.Lo, b.iv.Lo)
		case token.OR:
			r = new(big.Int).Or(a.iv.Lo, b.iv.Lo)
		case token.XOR:
			r = new(big.Int).Xor(a.iv.Lo, b.iv.Lo)
		}
		if r != nil {
			li.vals[x] = &lval{iv: ivConst(r)}
			return
		}
	}
	switch x.Op {
	case token.EQL, token.NEQ, token.LSS, token.LEQ, token.GTR, token.GEQ:
		li.vals[x] = &lval{iv: IV{new(big.Int), big.NewInt(1)}}
		return
	case token.ADD:
		r := li.plain(a).add(li.plain(b))
		if r.Hi.Cmp(max) > 0 {
			li.issue(x.Pos(), "addition may wrap: %s + %s exceeds %d bits", li.plain(a), li.plain(b), max.BitLen())
			r = IV{new(big.Int), max}
		}
		li.vals[x] = &lval{iv: r}
	case token.SUB:
		pa, pb := li.plain(a), li.plain(b)
		lo := new(big.Int).Sub(pa.Lo, pb.Hi)
		hi := new(big.Int).Sub(pa.Hi, pb.Lo)
		if lo.Sign() < 0 {
			li.issue(x.Pos(), "subtraction may wrap below zero: %s - %s", pa, pb)
			lo, hi = new(big.Int), max
		}
		li.vals[x] = &lval{iv: IV{lo, hi}}
	case token.MUL:
		r := li.plain(a).mul(li.plain(b))
		if r.Hi.Cmp(max) > 0 {
			li.issue(x.Pos(), "multiplication may wrap: %s * %s exceeds %d bits", li.plain(a), li.plain(b), max.BitLen())
			r = IV{new(big.Int), max}
		}
		li.vals[x] = &lval{iv: r}
	case token.AND:
		pa, pb := li.plain(a), li.plain(b)
		hi := pa.Hi
		if pb.Hi.Cmp(hi) < 0 {
			hi = pb.Hi
		}
		li.vals[x] = &lval{iv: IV{new(big.Int), new(big.Int).Set(hi)}}
	case token.OR:
		// (lo >> k) | (hi << (64-k)) of the same wide value = low half of (wide >> k)
		if w, k, ok := li.shiftCombine(x); ok {
			li.vals[x] = &lval{kind: 1, w: li.shifted(w, k)}
			return
		}
		pa, pb := li.plain(a), li.plain(b)
		hi := new(big.Int).Add(pa.Hi, pb.Hi) // a|b <= a+b
		if hi.Cmp(max) > 0 {
			hi = max
		}
		lo := pa.Lo
		if pb.Lo.Cmp(lo) > 0 {
			lo = pb.Lo
		}
		li.vals[x] = &lval{iv: IV{new(big.Int).Set(lo), hi}}
	case token.XOR:
		pa, pb := li.plain(a), li.plain(b)
		hi := new(big.Int).Add(pa.Hi, pb.Hi)
		if hi.Cmp(max) > 0 {
			hi = max
		}
		li.vals[x] = &lval{iv: IV{new(big.Int), hi}}
	case token.SHR:
		k, isC := ConstOf(x.Y)
		if !isC {
			li.vals[x] = &lval{iv: IV{new(big.Int), li.plain(a).Hi}}
			return
		}
		if a.kind == 2 {
			// hi >>= k  : high half of (wide >> k)
			li.vals[x] = &lval{kind: 2, w: li.shifted(a.w, uint(k.Int64()))}
			return
		}
		li.vals[x] = &lval{iv: li.plain(a).shr(uint(k.Int64()))}
	case token.SHL:
		k, isC := ConstOf(x.Y)
		if !isC {
			li.vals[x] = &lval{iv: IV{new(big.Int), max}}
			return
		}
		r := li.plain(a).shl(uint(k.Int64()))
		if r.Hi.Cmp(max) > 0 {
			// bits shifted out: legitimate only inside the shift-combine idiom (handled at the OR)
			li.vals[x] = &lval{iv: IV{new(big.Int), max}, kind: 0}
			li.vals[x].pend = nil
			li.shlOverflow(x)
			return
		}
		li.vals[x] = &lval{iv: r}
	default:
		li.vals[x] = &lval{iv: IV{new(big.Int), max}}
	}
}

// shlOverflow remembers SHL results that dropped bits; if they are not consumed by a
// recognised shift-combine they are reported when used (conservatively: report now unless
// the only user is an OR that forms the idiom).
func (li *limbInterp) shlOverflow(x *ssa.BinOp) {
	refs := x.Referrers()
	if refs != nil {
		for _, r := range *refs {
			if or, ok := r.(*ssa.BinOp); ok && or.Op == token.OR {
				if _, _, ok := li.shiftCombinePre(or); ok {
					return
				}
			}
		}
	}
	li.issue(x.Pos(), "left shift may drop bits: %s << %s", li.plain(li.get(x.X)), li.plain(li.get(x.Y)))
}

func (li *limbInterp) shiftCombinePre(or *ssa.BinOp) (*wide, uint, bool) {
	var shr, shl *ssa.BinOp
	for _, o := range []ssa.Value{or.X, or.Y} {
		if b, ok := o.(*ssa.BinOp); ok {
			if b.Op == token.SHR {
				shr = b
			} else if b.Op == token.SHL {
				shl = b
			}
		}
	}
	if shr == nil || shl == nil {
		return nil, 0, false
	}
	k1, ok1 := ConstOf(shr.Y)
	k2, ok2 := ConstOf(shl.Y)
	if !ok1 || !ok2 || k1.Int64()+k2.Int64() != 64 {
		return nil, 0, false
	}
	lo, okl := li.vals[shr.X]
	hi, okh := li.vals[shl.X]
	if !okl || !okh || lo.kind != 1 || hi.kind != 2 || lo.w != hi.w {
		return nil, 0, false
	}
	return lo.w, uint(k1.Int64()), true
}

func (li *limbInterp) shiftCombine(or *ssa.BinOp) (*wide, uint, bool) {
	return li.shiftCombinePre(or)
}

func (li *limbInterp) shifted(w *wide, k uint) *wide {
	key := fmt.Sprintf("%p>>%d", w, k)
	if s, ok := li.shifts[key]; ok {
		return s
	}
	s := &wide{iv: w.iv.shr(k)}
	li.shifts[key] = s
	return s
}

// asWide views an operand of a low Add64 as a 128-bit value.
func (li *limbInterp) asWide(v *lval) *wide {
	if v.kind == 1 {
		return v.w
	}
	return &wide{iv: li.plain(v)}
}

func (li *limbInterp) call(x *ssa.Call) {
	name := CallName(x)
	args := x.Call.Args
	switch name {
	case "math/bits.Mul64":
		pa, pb := li.plain(li.get(args[0])), li.plain(li.get(args[1]))
		w := &wide{iv: pa.mul(pb)}
		li.vals[x] = &lval{kind: 4, tuple: []*lval{{kind: 2, w: w}, {kind: 1, w: w}}}
	case "math/bits.Add64":
		a, b, c := li.get(args[0]), li.get(args[1]), li.get(args[2])
		if c.kind == 0 && c.iv.Hi.Sign() == 0 {
			// low-half addition: starts a 128-bit add
			wa, wb := li.asWide(a), li.asWide(b)
			sum := &wide{iv: wa.iv.add(wb.iv)}
			p := &pending{wa: wa, wb: wb, sum: sum}
			li.vals[x] = &lval{kind: 4, tuple: []*lval{{kind: 1, w: sum}, {kind: 3, pend: p}}}
			return
		}
		if c.kind == 3 {
			p := c.pend
			// high halves of the same two wides (a plain zero stands for the high half of a 64-bit value)
			okA := (a.kind == 2 && (a.w == p.wa || a.w == p.wb)) || (a.kind == 0 && a.iv.Hi.Sign() == 0)
			okB := (b.kind == 2 && (b.w == p.wa || b.w == p.wb)) || (b.kind == 0 && b.iv.Hi.Sign() == 0)
			if !okA || !okB {
				li.issue(x.Pos(), "unrecognised 128-bit accumulation: the high add does not pair with the low add")
				li.vals[x] = &lval{kind: 4, tuple: []*lval{{iv: IV{new(big.Int), max64}}, {iv: IV{new(big.Int), big.NewInt(1)}}}}
				return
			}
			if a.kind == 0 && p.wa.iv.Hi.Cmp(two64) >= 0 && b.kind == 0 && p.wb.iv.Hi.Cmp(two64) >= 0 {
				li.issue(x.Pos(), "high half of an accumulator ignored")
			}
			p.used = true
			// the carry out of this add is discarded by the code: the sum must fit 128 bits
			carryUsed := false
			if refs := x.Referrers(); refs != nil {
				for _, r := range *refs {
					if ex, ok := r.(*ssa.Extract); ok && ex.Index == 1 {
						if rr := ex.Referrers(); rr != nil && len(*rr) > 0 {
							carryUsed = true
						}
					}
				}
			}
			if !carryUsed && p.sum.iv.Hi.Cmp(two128) >= 0 {
				li.issue(x.Pos(), "128-bit accumulator may overflow: sum up to 0x%s (the carry out of the high add is discarded)", p.sum.iv.Hi.Text(16))
			}
			li.vals[x] = &lval{kind: 4, tuple: []*lval{{kind: 2, w: p.sum}, {iv: IV{new(big.Int), big.NewInt(1)}}}}
			return
		}
		// general Add64 on plain values
		s := li.plain(a).add(li.plain(b)).add(li.plain(c))
		if s.Hi.Cmp(max64) > 0 {
			s = IV{new(big.Int), new(big.Int).Set(max64)}
		}
		li.vals[x] = &lval{kind: 4, tuple: []*lval{{iv: s}, {iv: IV{new(big.Int), big.NewInt(1)}}}}
	default:
		// unknown call: result unconstrained
		if tup, ok := x.Type().(*types.Tuple); ok {
			t := &lval{kind: 4}
			for i := 0; i < tup.Len(); i++ {
				t.tuple = append(t.tuple, &lval{iv: IV{new(big.Int), typeMax(tup.At(i).Type())}})
			}
			li.vals[x] = t
			return
		}
		li.vals[x] = &lval{iv: IV{new(big.Int), typeMax(x.Type())}}
	}
}

// SortedOut returns the output keys in order.
func (r *LimbResult) SortedOut() []string {
	var ks []string
	for k := range r.Out {
		ks = append(ks, k)
	}
	sort.Strings(ks)
	return ks
}

// paramTag names a parameter by position ("#0" is the receiver), so that contracts do not depend on the
// names chosen in the source.
func paramTag(p *ssa.Parameter) string {
	for i, q := range p.Parent().Params {
		if q == p {
			return fmt.Sprintf("#%d", i)
		}
	}
	return p.Name()
}

package an

import (
	"fmt"
	"math/big"
	"sort"
	"strings"
)

// Lin is a linear form  sum(coef[a]*a) + c  over named atoms with rational
// coefficients. Atoms are opaque strings (canonical keys of SSA values).
type Lin struct {
	T map[string]*big.Rat
	C *big.Rat
}

func NewLin() *Lin { return &Lin{T: map[string]*big.Rat{}, C: new(big.Rat)} }

func LinConst(c int64) *Lin {
	l := NewLin()
	l.C.SetInt64(c)
	return l
}

func LinBig(c *big.Int) *Lin {
	l := NewLin()
	l.C.SetInt(c)
	return l
}

func LinAtom(a string) *Lin {
	l := NewLin()
	l.T[a] = big.NewRat(1, 1)
	return l
}

func (l *Lin) Clone() *Lin {
	n := NewLin()
	n.C.Set(l.C)
	for k, v := range l.T {
		n.T[k] = new(big.Rat).Set(v)
	}
	return n
}

func (l *Lin) AddScaled(o *Lin, k *big.Rat) *Lin {
	n := l.Clone()
	n.C.Add(n.C, new(big.Rat).Mul(o.C, k))
	for a, v := range o.T {
		t := new(big.Rat).Mul(v, k)
		if cur, ok := n.T[a]; ok {
			cur.Add(cur, t)
			if cur.Sign() == 0 {
				delete(n.T, a)
			}
		} else if t.Sign() != 0 {
			n.T[a] = t
		}
	}
	return n
}

var ratOne = big.NewRat(1, 1)
var ratMinusOne = big.NewRat(-1, 1)

func (l *Lin) Add(o *Lin) *Lin { return l.AddScaled(o, ratOne) }
func (l *Lin) Sub(o *Lin) *Lin { return l.AddScaled(o, ratMinusOne) }
func (l *Lin) Scale(k int64) *Lin {
	return NewLin().AddScaled(l, big.NewRat(k, 1))
}
func (l *Lin) AddConst(c int64) *Lin {
	n := l.Clone()
	n.C.Add(n.C, big.NewRat(c, 1))
	return n
}

func (l *Lin) IsConst() bool { return len(l.T) == 0 }

func (l *Lin) Atoms() []string {
	var out []string
	for a := range l.T {
		out = append(out, a)
	}
	sort.Strings(out)
	return out
}

func (l *Lin) String() string {
	var parts []string
	for _, a := range l.Atoms() {
		c := l.T[a]
		switch {
		case c.Cmp(ratOne) == 0:
			parts = append(parts, a)
		case c.Cmp(ratMinusOne) == 0:
			parts = append(parts, "-"+a)
		default:
			parts = append(parts, c.RatString()+"*"+a)
		}
	}
	if l.C.Sign() != 0 || len(parts) == 0 {
		parts = append(parts, l.C.RatString())
	}
	return strings.ReplaceAll(strings.Join(parts, " + "), "+ -", "- ")
}

// A Constraint is  L >= 0  over the integers.
type Constraint struct {
	L   *Lin
	Why string
}

func GE0(l *Lin, why string) Constraint { return Constraint{l, why} }

// Entails decides whether the facts imply  target >= 0  (all quantities are
// integers): the system facts ∧ (target <= -1) must be infeasible over the
// rationals (Fourier-Motzkin elimination; sound, incomplete for integers).
// maxRows bounds the elimination; exceeding it answers "not proven".
func Entails(facts []Constraint, target *Lin) bool {
	// rows: L >= 0
	rows := make([]*Lin, 0, len(facts)+1)
	rel := map[string]bool{}
	for a := range target.T {
		rel[a] = true
	}
	// keep only facts connected (transitively) to the target's atoms
	used := make([]bool, len(facts))
	for changed := true; changed; {
		changed = false
		for i, f := range facts {
			if used[i] {
				continue
			}
			hit := false
			for a := range f.L.T {
				if rel[a] {
					hit = true
					break
				}
			}
			if hit || (len(f.L.T) == 0) {
				used[i] = true
				changed = true
				for a := range f.L.T {
					rel[a] = true
				}
			}
		}
	}
	for i, f := range facts {
		if used[i] || len(target.T) == 0 {
			rows = append(rows, f.L)
		}
	}
	// negated target: -target - 1 >= 0
	rows = append(rows, target.Scale(-1).AddConst(-1))
	return infeasible(rows, 4000)
}

func infeasible(rows []*Lin, maxRows int) bool {
	for {
		// contradiction check and drop trivially true rows
		var next []*Lin
		for _, r := range rows {
			if r.IsConst() {
				if r.C.Sign() < 0 {
					return true
				}
				continue
			}
			next = append(next, r)
		}
		rows = dedupRows(next)
		if len(rows) == 0 {
			return false
		}
		if len(rows) > maxRows {
			return false
		}
		// pick the atom with the smallest pos*neg product
		cntP, cntN := map[string]int{}, map[string]int{}
		for _, r := range rows {
			for a, c := range r.T {
				if c.Sign() > 0 {
					cntP[a]++
				} else {
					cntN[a]++
				}
			}
		}
		best, bestCost := "", -1
		atoms := map[string]bool{}
		for a := range cntP {
			atoms[a] = true
		}
		for a := range cntN {
			atoms[a] = true
		}
		var names []string
		for a := range atoms {
			names = append(names, a)
		}
		sort.Strings(names)
		for _, a := range names {
			cost := cntP[a] * cntN[a]
			if bestCost < 0 || cost < bestCost {
				best, bestCost = a, cost
			}
		}
		var pos, neg, rest []*Lin
		for _, r := range rows {
			c, ok := r.T[best]
			switch {
			case !ok:
				rest = append(rest, r)
			case c.Sign() > 0:
				pos = append(pos, r)
			default:
				neg = append(neg, r)
			}
		}
		// eliminate: for p (a has coef cp>0) and n (coef cn<0): p*(-cn) + n*cp
		for _, p := range pos {
			for _, n := range neg {
				cp := p.T[best]
				cn := new(big.Rat).Neg(n.T[best])
				comb := NewLin().AddScaled(p, cn).AddScaled(n, cp)
				delete(comb.T, best)
				rest = append(rest, comb)
			}
		}
		rows = rest
	}
}

// dedupRows removes duplicate rows and rows dominated by a row with the same
// direction and a smaller constant (a.x + c1 >= 0 implies a.x + c2 >= 0 for c2 >= c1).
func dedupRows(rows []*Lin) []*Lin {
	best := map[string]int{}
	var out []*Lin
	var consts []*big.Rat
	for _, r := range rows {
		as := r.Atoms()
		if len(as) == 0 {
			out = append(out, r)
			consts = append(consts, nil)
			continue
		}
		d := new(big.Rat).Abs(r.T[as[0]])
		var sb strings.Builder
		for _, a := range as {
			q := new(big.Rat).Quo(r.T[a], d)
			fmt.Fprintf(&sb, "%s*%s,", q.RatString(), a)
		}
		k := sb.String()
		cn := new(big.Rat).Quo(r.C, d)
		if i, ok := best[k]; ok {
			if cn.Cmp(consts[i]) < 0 {
				out[i] = r
				consts[i] = cn
			}
			continue
		}
		best[k] = len(out)
		out = append(out, r)
		consts = append(consts, cn)
	}
	return out
}

func rowKey(r *Lin) string {
	as := r.Atoms()
	if len(as) == 0 {
		return "c" + r.C.RatString()
	}
	d := new(big.Rat).Abs(r.T[as[0]])
	var sb strings.Builder
	for _, a := range as {
		q := new(big.Rat).Quo(r.T[a], d)
		fmt.Fprintf(&sb, "%s*%s,", q.RatString(), a)
	}
	q := new(big.Rat).Quo(r.C, d)
	sb.WriteString(q.RatString())
	return sb.String()
}

// BoundsOf projects the facts onto the linear form l and returns its implied
// constant lower and upper bounds (nil = unbounded).
func BoundsOf(facts []Constraint, l *Lin) (lo, hi *big.Rat) {
	if l.IsConst() {
		return new(big.Rat).Set(l.C), new(big.Rat).Set(l.C)
	}
	const z = "$z"
	rows := []*Lin{LinAtom(z).Sub(l), l.Sub(LinAtom(z))}
	rel := map[string]bool{}
	for a := range l.T {
		rel[a] = true
	}
	used := make([]bool, len(facts))
	for changed := true; changed; {
		changed = false
		for i, f := range facts {
			if used[i] {
				continue
			}
			for a := range f.L.T {
				if rel[a] {
					used[i] = true
					changed = true
					for b := range f.L.T {
						rel[b] = true
					}
					rows = append(rows, f.L)
					break
				}
			}
		}
	}
	for {
		// choose an atom other than z
		cntP, cntN := map[string]int{}, map[string]int{}
		for _, r := range rows {
			for a, c := range r.T {
				if a == z {
					continue
				}
				if c.Sign() > 0 {
					cntP[a]++
				} else {
					cntN[a]++
				}
			}
		}
		names := map[string]bool{}
		for a := range cntP {
			names[a] = true
		}
		for a := range cntN {
			names[a] = true
		}
		if len(names) == 0 {
			break
		}
		var ns []string
		for a := range names {
			ns = append(ns, a)
		}
		sort.Strings(ns)
		best, bestCost := "", -1
		for _, a := range ns {
			cost := cntP[a] * cntN[a]
			if bestCost < 0 || cost < bestCost {
				best, bestCost = a, cost
			}
		}
		var pos, neg, rest []*Lin
		for _, r := range rows {
			c, ok := r.T[best]
			switch {
			case !ok:
				rest = append(rest, r)
			case c.Sign() > 0:
				pos = append(pos, r)
			default:
				neg = append(neg, r)
			}
		}
		for _, p := range pos {
			for _, n := range neg {
				cp := p.T[best]
				cn := new(big.Rat).Neg(n.T[best])
				comb := NewLin().AddScaled(p, cn).AddScaled(n, cp)
				delete(comb.T, best)
				rest = append(rest, comb)
			}
		}
		rows = dedupRows(rest)
		if len(rows) > 4000 {
			return nil, nil
		}
	}
	for _, r := range rows {
		a, ok := r.T[z]
		if !ok {
			continue
		}
		// a*z + c >= 0
		b := new(big.Rat).Quo(new(big.Rat).Neg(r.C), a)
		if a.Sign() > 0 {
			if lo == nil || b.Cmp(lo) > 0 {
				lo = b
			}
		} else {
			if hi == nil || b.Cmp(hi) < 0 {
				hi = b
			}
		}
	}
	return lo, hi
}

package an

import (
	"fmt"
	"go/types"
	"sort"
	"strings"

	"gcv/internal/core"

	"golang.org/x/tools/go/ssa"
)

// ---- access paths -----------------------------------------------------------

// Path renders the canonical access path of an address/pointer value inside one
// function nest: root variable name (param, receiver, captured variable, local)
// or global "pkg.Name", followed by .field and [*] steps. Two syntactically
// different loads of the same variable get the same path (go/ssa has no CSE).
func Path(v ssa.Value) string {
	return pathRec(v, 0)
}

func pathRec(v ssa.Value, depth int) string {
	if depth > 12 {
		return "?"
	}
	switch x := v.(type) {
	case *ssa.Parameter:
		return x.Name()
	case *ssa.FreeVar:
		return x.Name()
	case *ssa.Global:
		pk := ""
		if x.Pkg != nil {
			pk = strings.TrimPrefix(x.Pkg.Pkg.Path(), core.Module+"/")
		}
		return pk + "." + x.Name()
	case *ssa.Alloc:
		if x.Comment != "" {
			return x.Comment
		}
		return "?" + x.Name()
	case *ssa.FieldAddr:
		st, ok := Deref(x.X.Type()).Underlying().(*types.Struct)
		if !ok {
			return "?"
		}
		return pathRec(x.X, depth+1) + "." + st.Field(x.Field).Name()
	case *ssa.Field:
		st, ok := x.X.Type().Underlying().(*types.Struct)
		if !ok {
			return "?"
		}
		return pathRec(x.X, depth+1) + "." + st.Field(x.Field).Name()
	case *ssa.IndexAddr:
		return pathRec(x.X, depth+1) + "[" + idxStr(x.Index) + "]"
	case *ssa.Index:
		return pathRec(x.X, depth+1) + "[" + idxStr(x.Index) + "]"
	case *ssa.Lookup:
		return pathRec(x.X, depth+1) + "[" + idxStr(x.Index) + "]"
	case *ssa.UnOp:
		if x.Op.String() == "*" {
			// load: a load of a variable cell is the variable itself; a load through
			// a pointer field keeps the path (pointer identity)
			return pathRec(x.X, depth+1)
		}
	case *ssa.ChangeType:
		return pathRec(x.X, depth+1)
	case *ssa.Convert:
		return pathRec(x.X, depth+1)
	case *ssa.MakeInterface:
		return pathRec(x.X, depth+1)
	case *ssa.Phi:
		// same path on all edges -> that path
		p := ""
		for i, e := range x.Edges {
			q := pathRec(e, depth+1)
			if i == 0 {
				p = q
			} else if q != p {
				return "?" + x.Name()
			}
		}
		return p
	case *ssa.Const:
		return "const"
	case *ssa.Slice:
		return pathRec(x.X, depth+1)
	}
	return "?" + v.Name()
}

func idxStr(v ssa.Value) string {
	if c, ok := v.(*ssa.Const); ok && c.Value != nil {
		return c.Value.ExactString()
	}
	if p := pathRec(v, 6); !strings.Contains(p, "?") && p != "const" {
		return p
	}
	return "*"
}

// PathClass renders the type-based class of an address: "lib/utxo.UnspentDB.MapMutex[]"
// or the global's name. Used to relate locks across functions.
func PathClass(v ssa.Value) string {
	switch x := v.(type) {
	case *ssa.Global:
		return Path(x)
	case *ssa.FieldAddr:
		s, _ := FieldOf(x)
		return s
	case *ssa.Field:
		s, _ := FieldOf(x)
		return s
	case *ssa.IndexAddr:
		return PathClass(x.X) + "[]"
	case *ssa.Index:
		return PathClass(x.X) + "[]"
	case *ssa.UnOp:
		if x.Op.String() == "*" {
			return PathClass(x.X)
		}
	case *ssa.Phi:
		if len(x.Edges) > 0 {
			return PathClass(x.Edges[0])
		}
	case *ssa.Alloc:
		return "local:" + x.Comment
	case *ssa.Parameter:
		return "param:" + TypeName(x.Type())
	case *ssa.FreeVar:
		return "captured:" + x.Name()
	}
	return "?"
}

// ---- lock operations ----------------------------------------------------------

type LockOp struct {
	Kind  int // +1 acquire, -1 release
	Read  bool
	Path  string
	Class string
}

func (o LockOp) key() string {
	if o.Read {
		return o.Path + "(R)"
	}
	return o.Path
}

// DirectLockOp recognises X.Lock/Unlock/RLock/RUnlock on a sync.Mutex/RWMutex or
// on a module wrapper type that defines those methods (sys.Mutex, sys.Dutex).
func DirectLockOp(c ssa.CallInstruction) (LockOp, bool) {
	f := CalleeFunc(c)
	if f == nil {
		return LockOp{}, false
	}
	sig := f.Type().(*types.Signature)
	if sig.Recv() == nil || sig.Params().Len() != 0 {
		return LockOp{}, false
	}
	var op LockOp
	switch f.Name() {
	case "Lock":
		op.Kind = 1
	case "Unlock":
		op.Kind = -1
	case "RLock":
		op.Kind, op.Read = 1, true
	case "RUnlock":
		op.Kind, op.Read = -1, true
	default:
		return LockOp{}, false
	}
	rt := TypeName(sig.Recv().Type())
	switch rt {
	case "sync.Mutex", "sync.RWMutex", "lib/others/sys.Mutex", "lib/others/sys.Dutex":
	default:
		if _, isIface := sig.Recv().Type().Underlying().(*types.Interface); isIface {
			// sync.Locker etc.
		} else {
			return LockOp{}, false
		}
	}
	cc := c.Common()
	var recv ssa.Value
	if cc.IsInvoke() {
		recv = cc.Value
	} else if len(cc.Args) > 0 {
		recv = cc.Args[0]
	}
	if recv == nil {
		return LockOp{}, false
	}
	op.Path = Path(recv)
	op.Class = PathClass(recv)
	return op, true
}

// ---- per-function lock-state dataflow ------------------------------------------

// count sets as bitmasks: bit0 = -1, bit1 = 0, bit2 = +1, bit3 = +2 (double acquire)
type cset uint8

const (
	cM1 cset = 1 << iota
	c0
	c1
	c2
)

func (s cset) shift(d int) cset {
	if d > 0 {
		return (s << 1) & 0xf
	}
	r := s >> 1
	if s&cM1 != 0 {
		r |= cM1 // saturate
	}
	return r
}

type lstate struct {
	cnt      map[string]cset // outstanding acquisitions; absent = {0}
	deferred map[string]bool // must-held until exit (acquired, release deferred)
}

func (s *lstate) clone() *lstate {
	n := &lstate{cnt: map[string]cset{}, deferred: map[string]bool{}}
	for k, v := range s.cnt {
		n.cnt[k] = v
	}
	for k := range s.deferred {
		n.deferred[k] = true
	}
	return n
}

func (s *lstate) get(k string) cset {
	if v, ok := s.cnt[k]; ok {
		return v
	}
	return c0
}

func (s *lstate) join(o *lstate) bool {
	ch := false
	for k, v := range o.cnt {
		old := s.get(k)
		if old|v != old {
			s.cnt[k] = old | v
			ch = true
		}
	}
	for k := range s.cnt {
		if _, ok := o.cnt[k]; !ok {
			old := s.cnt[k]
			if old|c0 != old {
				s.cnt[k] = old | c0
				ch = true
			}
		}
	}
	for k := range s.deferred {
		if !o.deferred[k] {
			delete(s.deferred, k)
			ch = true
		}
	}
	return ch
}

// LockSummary is the net effect of a function on locks rooted at globals,
// parameters or captured variables.
type LockSummary struct {
	// Acquires: every lock (key in the function's own namespace, global- or parameter-rooted)
	// that the function or one of its static callees acquires at some point
	Acquires map[string]bool
	Net      map[string]int // key (path, with (R) suffix) -> +1 / -1
	// Mixed lists locks whose count differs between exits (reported separately)
	Mixed map[string]cset
}

// LockReport is one finding of the lock analysis.
type LockReport struct {
	Fn     *ssa.Function
	Kind   string // "exit-held", "double-acquire", "panic-held", "release-unheld"
	Lock   string
	Instr  ssa.Instruction
	Detail string
}

type LockAnalysis struct {
	Prog     *core.Program
	sums     map[*ssa.Function]*LockSummary
	inprog   map[*ssa.Function]bool
	Reports  []LockReport
	reported map[string]bool
	classOf  map[*ssa.Function]map[string]string // path key -> class
	Sites    int
	Funcs    int
	// EntryHeld, when set, returns lock keys (paths in fn's own namespace) assumed held on entry
	EntryHeld func(fn *ssa.Function) []string
}

func NewLockAnalysis(p *core.Program) *LockAnalysis {
	return &LockAnalysis{Prog: p, sums: map[*ssa.Function]*LockSummary{}, inprog: map[*ssa.Function]bool{},
		reported: map[string]bool{}, classOf: map[*ssa.Function]map[string]string{}}
}

func (la *LockAnalysis) report(fn *ssa.Function, kind, lock string, in ssa.Instruction, detail string) {
	k := core.FuncName(fn) + "|" + kind + "|" + lock + "|" + la.Prog.Pos(InstrPos(in))
	if la.reported[k] {
		return
	}
	la.reported[k] = true
	la.Reports = append(la.Reports, LockReport{fn, kind, lock, in, detail})
}

// Summary analyses fn (memoised) and returns its net lock effect.
func (la *LockAnalysis) Summary(fn *ssa.Function) *LockSummary {
	if s, ok := la.sums[fn]; ok {
		return s
	}
	if fn == nil || fn.Blocks == nil || la.inprog[fn] {
		return &LockSummary{Acquires: map[string]bool{}}
	}
	la.inprog[fn] = true
	s := la.analyse(fn)
	delete(la.inprog, fn)
	la.sums[fn] = s
	return s
}

// mapCalleeKey rewrites a callee lock key into the caller's namespace.
func mapCalleeKey(key string, callee *ssa.Function, call ssa.CallInstruction) (string, bool) {
	suffix := ""
	if strings.HasSuffix(key, "(R)") {
		suffix = "(R)"
		key = strings.TrimSuffix(key, "(R)")
	}
	root := key
	rest := ""
	if i := strings.IndexAny(key, ".["); i >= 0 {
		root, rest = key[:i], key[i:]
	}
	args := call.Common().Args
	for i, p := range callee.Params {
		if p.Name() == root && i < len(args) {
			ap := Path(args[i])
			return ap + rest + suffix, !strings.HasPrefix(ap, "?")
		}
	}
	for i, fv := range callee.FreeVars {
		if fv.Name() == root {
			if mc, ok := call.Common().Value.(*ssa.MakeClosure); ok && i < len(mc.Bindings) {
				return Path(mc.Bindings[i]) + rest + suffix, true
			}
			return key + suffix, true // same variable name in the enclosing nest
		}
	}
	if strings.HasPrefix(key, "?") {
		return key + suffix, false
	}
	return key + suffix, true // global (or same-nest variable)
}

// lockEvent is a lock operation attached to an instruction (direct, via callee
// summary, deferred, or handed to a goroutine).
type lockEvent struct {
	op       LockOp
	deferred bool // executed at function exit
}

// eventsOf lists the lock events of one instruction.
func (la *LockAnalysis) eventsOf(ins ssa.Instruction) []lockEvent {
	var out []lockEvent
	fromSummary := func(x ssa.CallInstruction, onlyRelease, deferred bool) {
		cal := StaticCallee(x)
		if cal == nil || !core.InModule(cal) {
			return
		}
		sum := la.Summary(cal)
		keys := make([]string, 0, len(sum.Net))
		for k := range sum.Net {
			keys = append(keys, k)
		}
		sort.Strings(keys)
		for _, k := range keys {
			d := sum.Net[k]
			if onlyRelease && d > 0 {
				continue
			}
			ck, ok := mapCalleeKey(k, cal, x)
			if !ok {
				continue
			}
			read := strings.HasSuffix(ck, "(R)")
			out = append(out, lockEvent{LockOp{Kind: d, Read: read, Path: strings.TrimSuffix(ck, "(R)"), Class: la.classOf[cal][k]}, deferred})
		}
	}
	switch x := ins.(type) {
	case *ssa.Defer:
		if op, ok := DirectLockOp(x); ok {
			if op.Kind < 0 {
				out = append(out, lockEvent{op, true})
			}
			return out
		}
		fromSummary(x, true, true)
	case *ssa.Go:
		fromSummary(x, true, false)
	case *ssa.Call:
		if op, ok := DirectLockOp(x); ok {
			out = append(out, lockEvent{op, false})
			return out
		}
		fromSummary(x, false, false)
	}
	return out
}

// loopQuantified finds lock operations of the form K[i].Lock() inside a loop
// whose index i is the loop's induction variable ("for i := range K"). Such a
// loop establishes the universally quantified fact "every K[*] is held" at its
// exit (also when it runs zero times), so the operation is applied once on the
// loop's exit edge instead of inside the body.
// Returns instr -> (head block, exit successor).
type loopExit struct{ head, exit *ssa.BasicBlock }

func loopQuantified(fn *ssa.Function) map[ssa.Instruction]loopExit {
	res := map[ssa.Instruction]loopExit{}
	for _, b := range fn.Blocks {
		for _, ins := range b.Instrs {
			ci, ok := ins.(ssa.CallInstruction)
			if !ok {
				continue
			}
			if _, ok := DirectLockOp(ci); !ok {
				continue
			}
			args := ci.Common().Args
			if len(args) == 0 {
				continue
			}
			ia, ok := args[0].(*ssa.IndexAddr)
			if !ok {
				continue
			}
			var phi *ssa.Phi
			switch iv := ia.Index.(type) {
			case *ssa.Phi:
				phi = iv
			case *ssa.BinOp:
				if p, ok := iv.X.(*ssa.Phi); ok {
					if _, isc := iv.Y.(*ssa.Const); isc {
						phi = p
					}
				}
			}
			if phi == nil {
				continue
			}
			h := phi.Block()
			if !h.Dominates(b) || h == b {
				continue
			}
			// h must be a loop head: some predecessor is dominated by h
			isLoop := false
			for _, pr := range h.Preds {
				if h.Dominates(pr) {
					isLoop = true
				}
			}
			if !isLoop || len(h.Succs) != 2 {
				continue
			}
			// exit successor: the one from which b is not reachable without passing h
			for _, sc := range h.Succs {
				if !reachAvoid(sc, b, h) {
					res[ins] = loopExit{h, sc}
				}
			}
		}
	}
	return res
}

func reachAvoid(from, to, avoid *ssa.BasicBlock) bool {
	seen := map[*ssa.BasicBlock]bool{avoid: true}
	st := []*ssa.BasicBlock{from}
	for len(st) > 0 {
		x := st[len(st)-1]
		st = st[:len(st)-1]
		if seen[x] {
			continue
		}
		seen[x] = true
		if x == to {
			return true
		}
		st = append(st, x.Succs...)
	}
	return false
}

type flowResult struct {
	in      []*lstate
	classes map[string]string
}

// flow runs the lock-state dataflow; visit (may be nil) is called in a final
// pass with the state holding immediately before each instruction.
func (la *LockAnalysis) flow(fn *ssa.Function, visit func(ins ssa.Instruction, st *lstate), onApply func(ins ssa.Instruction, ev lockEvent, old cset)) *flowResult {
	classes := la.classOf[fn]
	if classes == nil {
		classes = map[string]string{}
		la.classOf[fn] = classes
	}
	quant := loopQuantified(fn)
	edgeOps := map[[2]int][]ssa.Instruction{}
	for ins, le := range quant {
		k := [2]int{le.head.Index, le.exit.Index}
		edgeOps[k] = append(edgeOps[k], ins)
	}
	for k := range edgeOps {
		sort.Slice(edgeOps[k], func(i, j int) bool { return edgeOps[k][i].Pos() < edgeOps[k][j].Pos() })
	}
	evCache := map[ssa.Instruction][]lockEvent{}
	events := func(ins ssa.Instruction) []lockEvent {
		if e, ok := evCache[ins]; ok {
			return e
		}
		e := la.eventsOf(ins)
		evCache[ins] = e
		return e
	}
	apply := func(st *lstate, ins ssa.Instruction, ev lockEvent, final bool) {
		k := ev.op.key()
		if ev.op.Class != "" {
			classes[k] = ev.op.Class
		}
		old := st.get(k)
		if final && onApply != nil {
			onApply(ins, ev, old)
		}
		if ev.deferred {
			// release at exit: the acquisition is discharged now, the lock stays held until exit
			if old&(c1|c2) != 0 {
				st.cnt[k] = old.shift(-1)
				if old == c1 || old == c2 {
					st.deferred[k] = true
				}
			} else {
				// deferred release of something not (yet) held here: treat as plain release at exit
				st.cnt[k] = old.shift(-1)
			}
			return
		}
		st.cnt[k] = old.shift(ev.op.Kind)
		if ev.op.Kind < 0 {
			delete(st.deferred, k)
		}
	}
	step := func(st *lstate, ins ssa.Instruction, final bool) {
		if _, q := quant[ins]; q {
			return
		}
		for _, ev := range events(ins) {
			apply(st, ins, ev, final)
		}
	}
	in := make([]*lstate, len(fn.Blocks))
	entry := &lstate{cnt: map[string]cset{}, deferred: map[string]bool{}}
	if la.EntryHeld != nil {
		for _, k := range la.EntryHeld(fn) {
			entry.deferred[k] = true
		}
	}
	in[0] = entry
	work := []int{0}
	for len(work) > 0 {
		bi := work[0]
		work = work[1:]
		b := fn.Blocks[bi]
		st := in[bi].clone()
		for _, ins := range b.Instrs {
			step(st, ins, false)
		}
		for _, s := range b.Succs {
			es := st
			if ops := edgeOps[[2]int{bi, s.Index}]; len(ops) > 0 {
				es = st.clone()
				for _, ins := range ops {
					for _, ev := range events(ins) {
						apply(es, ins, ev, false)
					}
				}
			}
			if in[s.Index] == nil {
				in[s.Index] = es.clone()
				work = append(work, s.Index)
			} else if in[s.Index].join(es) {
				work = append(work, s.Index)
			}
		}
	}
	if visit != nil || onApply != nil {
		for _, b := range fn.Blocks {
			if in[b.Index] == nil || fn.Recover == b {
				continue
			}
			st := in[b.Index].clone()
			for _, ins := range b.Instrs {
				if visit != nil {
					visit(ins, st)
				}
				step(st, ins, true)
			}
			for _, s := range b.Succs {
				if ops := edgeOps[[2]int{b.Index, s.Index}]; len(ops) > 0 {
					es := st.clone()
					for _, ins := range ops {
						for _, ev := range events(ins) {
							apply(es, ins, ev, true)
						}
					}
				}
			}
		}
	}
	return &flowResult{in, classes}
}

func (la *LockAnalysis) analyse(fn *ssa.Function) *LockSummary {
	la.Funcs++
	type exitRec struct {
		st *lstate
		in ssa.Instruction
	}
	var rets, panics []exitRec
	la.flow(fn, func(ins ssa.Instruction, st *lstate) {
		switch ins.(type) {
		case *ssa.Return:
			rets = append(rets, exitRec{st.clone(), ins})
		case *ssa.Panic:
			panics = append(panics, exitRec{st.clone(), ins})
		}
	}, func(ins ssa.Instruction, ev lockEvent, old cset) {
		la.Sites++
		if ev.op.Kind > 0 && !ev.deferred && old&(c1|c2) != 0 {
			la.report(fn, "double-acquire", ev.op.key(), ins, "lock may already be held here (self-deadlock)")
		}
	})
	sum := &LockSummary{Net: map[string]int{}, Mixed: map[string]cset{}, Acquires: map[string]bool{}}
	// locks acquired here or in callees; and: a callee acquiring a lock that is held at the call
	held := la.heldMay(fn)
	Instrs(fn, func(i ssa.Instruction) {
		ci, ok := i.(ssa.CallInstruction)
		if !ok {
			return
		}
		if op, ok := DirectLockOp(ci); ok {
			if op.Kind > 0 && !strings.HasPrefix(op.Path, "?") {
				sum.Acquires[op.key()] = true
			}
			return
		}
		if _, isGo := i.(*ssa.Go); isGo {
			return // runs on another goroutine
		}
		cal := StaticCallee(ci)
		if cal == nil || !core.InModule(cal) {
			return
		}
		cs := la.Summary(cal)
		keys := make([]string, 0, len(cs.Acquires))
		for k := range cs.Acquires {
			keys = append(keys, k)
		}
		sort.Strings(keys)
		for _, k := range keys {
			ck, ok := mapCalleeKey(k, cal, ci)
			if !ok {
				continue
			}
			sum.Acquires[ck] = true
			if _, isDefer := i.(*ssa.Defer); isDefer {
				continue
			}
			for _, h := range held[i] {
				// a write lock conflicts with any hold; a read lock conflicts with a write hold
				hb, kb := strings.TrimSuffix(h, "(R)"), strings.TrimSuffix(ck, "(R)")
				if hb != kb {
					continue
				}
				if strings.HasSuffix(h, "(R)") && strings.HasSuffix(ck, "(R)") {
					continue
				}
				la.report(fn, "callee-acquires-held", kb, i, fmt.Sprintf("%s acquires %s, which is held at this call (self-deadlock)", core.FuncName(cal), kb))
			}
		}
	})
	all := map[string]cset{}
	for _, e := range rets {
		for k := range e.st.cnt {
			all[k] = 0
		}
	}
	for _, e := range rets {
		for k := range all {
			all[k] |= e.st.get(k)
		}
	}
	keys := make([]string, 0, len(all))
	for k := range all {
		keys = append(keys, k)
	}
	sort.Strings(keys)
	for _, k := range keys {
		switch v := all[k]; v {
		case c0:
		case c1:
			sum.Net[k] = 1
		case cM1:
			sum.Net[k] = -1
		default:
			sum.Mixed[k] = v
		}
	}
	for _, e := range rets {
		for _, k := range keys {
			v := e.st.get(k)
			if v&(c1|c2) != 0 && v != c1 {
				la.report(fn, "exit-held", k, e.in, fmt.Sprintf("returns with %s held on some path (count set %s)", k, v))
			} else if v == c1 && all[k] != c1 {
				la.report(fn, "exit-held", k, e.in, fmt.Sprintf("this return leaves %s held while other returns release it", k))
			}
			if v&cM1 != 0 && v != cM1 {
				la.report(fn, "release-unheld", k, e.in, fmt.Sprintf("%s released on some path without being held (count set %s)", k, v))
			} else if v == cM1 && all[k] != cM1 {
				la.report(fn, "release-unheld", k, e.in, fmt.Sprintf("this return has released %s while other returns have not", k))
			}
		}
	}
	for _, e := range panics {
		ks := make([]string, 0, len(e.st.cnt))
		for k := range e.st.cnt {
			ks = append(ks, k)
		}
		sort.Strings(ks)
		for _, k := range ks {
			if e.st.cnt[k]&(c1|c2) != 0 {
				la.report(fn, "panic-held", k, e.in, fmt.Sprintf("explicit panic while %s is held without a deferred release", k))
			}
		}
	}
	return sum
}

// heldMay: for every instruction, the lock keys that may be held (count includes +1) just before it.
func (la *LockAnalysis) heldMay(fn *ssa.Function) map[ssa.Instruction][]string {
	res := map[ssa.Instruction][]string{}
	la.flow(fn, func(ins ssa.Instruction, st *lstate) {
		if _, ok := ins.(ssa.CallInstruction); !ok {
			return
		}
		var hs []string
		for k, v := range st.cnt {
			if v&(c1|c2) != 0 {
				hs = append(hs, k)
			}
		}
		for k := range st.deferred {
			hs = append(hs, k)
		}
		sort.Strings(hs)
		res[ins] = hs
	}, nil)
	return res
}

// TakesLock reports whether fn contains a lock operation (direct or via a callee summary).
func (la *LockAnalysis) TakesLock(fn *ssa.Function) bool {
	found := false
	Instrs(fn, func(i ssa.Instruction) {
		if found {
			return
		}
		switch i.(type) {
		case *ssa.Call, *ssa.Defer, *ssa.Go:
			if len(la.eventsOf(i)) > 0 {
				found = true
			}
		}
	})
	return found
}

func (s cset) String() string {
	var p []string
	if s&cM1 != 0 {
		p = append(p, "-1")
	}
	if s&c0 != 0 {
		p = append(p, "0")
	}
	if s&c1 != 0 {
		p = append(p, "+1")
	}
	if s&c2 != 0 {
		p = append(p, "+2")
	}
	return "{" + strings.Join(p, ",") + "}"
}

// Held describes the locks must-held before an instruction: keys are access
// paths in the function's namespace (suffix "(R)" for read locks); Class maps a
// key to its type-based class where known.
type Held struct {
	Keys    []string
	Classes []string
}

func (h Held) Has(key string) bool {
	for _, k := range h.Keys {
		if k == key || k == key+"(R)" {
			return true
		}
	}
	return false
}

func (h Held) HasClass(c string) bool {
	for _, k := range h.Classes {
		if k == c || k == c+"(R)" {
			return true
		}
	}
	return false
}

// HasWrite: held in write mode (not only RLock)
func (h Held) HasWriteClass(c string) bool {
	for _, k := range h.Classes {
		if k == c {
			return true
		}
	}
	return false
}

// HeldBefore computes the must-held locks immediately before every instruction of fn.
func (la *LockAnalysis) HeldBefore(fn *ssa.Function) map[ssa.Instruction]Held {
	res := map[ssa.Instruction]Held{}
	if fn == nil || fn.Blocks == nil {
		return res
	}
	la.Summary(fn)
	var fr *flowResult
	type pend struct {
		ins  ssa.Instruction
		keys []string
	}
	var ps []pend
	fr = la.flow(fn, func(ins ssa.Instruction, st *lstate) {
		var held []string
		for k, v := range st.cnt {
			if v == c1 || v == c2 {
				held = append(held, k)
			}
		}
		for k := range st.deferred {
			if v := st.get(k); v == c0 {
				held = append(held, k)
			}
		}
		sort.Strings(held)
		ps = append(ps, pend{ins, held})
	}, nil)
	for _, p := range ps {
		h := Held{Keys: p.keys}
		for _, k := range p.keys {
			if c := fr.classes[k]; c != "" {
				if strings.HasSuffix(k, "(R)") && !strings.HasSuffix(c, "(R)") {
					c += "(R)"
				}
				h.Classes = append(h.Classes, c)
			}
		}
		res[p.ins] = h
	}
	return res
}

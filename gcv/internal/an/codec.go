package an

import (
	"go/token"
	"sort"
	"strings"

	"golang.org/x/tools/go/ssa"
)

// ForwardTags follows the uses of v (through conversions, arithmetic, phis,
// slicing and the listed pure callees) and reports where it ends up:
//
//	store:<Type.Field>     stored into that field
//	index:<Type.Field>     used as index into the container held in that field
//	slice-bound            used as a bound of a slice expression
//	slice-bound:<root>     ... of a slice of the parameter <root> ("param#i")
//	make-len               length of an allocation
//	arg:<callee>#i         passed to a call (not followed unless the callee is in through)
//	cmp                    compared
//	ret#i                  returned
func ForwardTags(v ssa.Value, through map[string]bool, maxDepth int) map[string]bool {
	out := map[string]bool{}
	seen := map[ssa.Value]bool{}
	var walk func(v ssa.Value, d int)
	walk = func(v ssa.Value, d int) {
		if v == nil || seen[v] || d > maxDepth {
			return
		}
		seen[v] = true
		refs := v.Referrers()
		if refs == nil {
			return
		}
		for _, r := range *refs {
			switch x := r.(type) {
			case *ssa.Store:
				if x.Val == v {
					if fa, ok := x.Addr.(*ssa.FieldAddr); ok {
						if f, ok := FieldOf(fa); ok {
							out["store:"+f] = true
						}
					} else if ia, ok := x.Addr.(*ssa.IndexAddr); ok {
						for a := range Atoms(ia.X) {
							if strings.HasPrefix(a, "field:") || strings.HasPrefix(a, "global:") {
								out["store-elem:"+strings.TrimPrefix(strings.TrimPrefix(a, "field:"), "global:")] = true
							}
						}
					} else if al, ok := x.Addr.(*ssa.Alloc); ok {
						// local cell: follow the loads
						for _, r2 := range *al.Referrers() {
							if ld, ok := r2.(*ssa.UnOp); ok && ld.Op == token.MUL {
								walk(ld, d+1)
							}
						}
					}
				}
			case *ssa.IndexAddr:
				if x.Index == v {
					for a := range Atoms(x.X) {
						if strings.HasPrefix(a, "field:") || strings.HasPrefix(a, "global:") {
							out["index:"+strings.TrimPrefix(strings.TrimPrefix(a, "field:"), "global:")] = true
						}
					}
					if len(Atoms(x.X)) > 0 {
						out["index"] = true
					}
				} else {
					walk(x, d+1)
				}
			case *ssa.Slice:
				if x.Low == v || x.High == v || x.Max == v {
					out["slice-bound"] = true
					for a := range Atoms(x.X) {
						if strings.HasPrefix(a, "param#") {
							out["slice-bound:"+a] = true
						}
					}
				} else {
					walk(x, d+1)
				}
			case *ssa.MakeSlice:
				out["make-len"] = true
			case *ssa.BinOp:
				switch x.Op {
				case token.EQL, token.NEQ, token.LSS, token.LEQ, token.GTR, token.GEQ:
					out["cmp"] = true
					walk(x, d+1) // the boolean may be stored (flag fields)
				default:
					walk(x, d+1)
				}
			case *ssa.Convert:
				walk(x, d+1)
			case *ssa.ChangeType:
				walk(x, d+1)
			case *ssa.Phi:
				walk(x, d+1)
			case *ssa.UnOp:
				walk(x, d+1)
			case *ssa.Extract:
				walk(x, d+1)
			case *ssa.Return:
				for i, res := range x.Results {
					if res == v {
						out["ret#"+string(rune('0'+i))] = true
					}
				}
			case ssa.CallInstruction:
				n := CallName(x)
				for i, a := range x.Common().Args {
					if a == v {
						out["arg:"+n+"#"+string(rune('0'+i))] = true
					}
				}
				if through[n] {
					if val, ok := x.(ssa.Value); ok {
						walk(val, d+1)
					}
				}
			}
		}
	}
	walk(v, 0)
	return out
}

// LoopBlocks returns the blocks that belong to some natural loop of fn.
func LoopBlocks(fn *ssa.Function) map[*ssa.BasicBlock]bool {
	in := map[*ssa.BasicBlock]bool{}
	for _, h := range fn.Blocks {
		for _, pr := range h.Preds {
			if !h.Dominates(pr) {
				continue
			}
			in[h] = true
			st := []*ssa.BasicBlock{pr}
			for len(st) > 0 {
				b := st[len(st)-1]
				st = st[:len(st)-1]
				if in[b] || !h.Dominates(b) {
					continue
				}
				in[b] = true
				st = append(st, b.Preds...)
			}
		}
	}
	return in
}

// TagList renders a tag set deterministically.
func TagList(m map[string]bool) string {
	var ks []string
	for k := range m {
		ks = append(ks, k)
	}
	sort.Strings(ks)
	return strings.Join(ks, ",")
}

package an

// E-GUARD: "a check is present, rejects on its failing edge, and cannot be
// bypassed". Values are identified by provenance (which parameters, fields,
// call results and constants they derive from), constants by value, relations
// after normalisation; never by variable names or positions.

import (
	"fmt"
	"go/constant"
	"go/token"
	"go/types"
	"math/big"
	"sort"
	"strings"

	"gcv/internal/core"

	"golang.org/x/tools/go/ssa"
)

// ---- provenance -----------------------------------------------------------------------

// Atoms returns the provenance atoms of v:
//
//	param:<name>  field:<T.F>  call:<callee full name>  const:<value>  global:<pkg.Name>
//	len  cap  elem (element load)  recv-of:<method>  fv:<name>
//
// paramAtomSubst is set only while CheckGuard looks into a predicate helper (single-threaded use).
var paramAtomSubst = map[*ssa.Parameter]map[string]bool{}

func Atoms(v ssa.Value) map[string]bool {
	out := map[string]bool{}
	atomsRec(v, out, map[ssa.Value]bool{}, 0)
	return out
}

func atomsRec(v ssa.Value, out map[string]bool, seen map[ssa.Value]bool, depth int) {
	if v == nil || seen[v] || depth > 40 {
		return
	}
	seen[v] = true
	switch x := v.(type) {
	case *ssa.Const:
		if x.Value != nil {
			out["const:"+x.Value.ExactString()] = true
		} else {
			out["const:nil"] = true
		}
	case *ssa.Parameter:
		if sub, ok := paramAtomSubst[x]; ok {
			// inside a predicate helper that is being looked at on behalf of one call site: the parameter
			// stands for the argument passed there
			for a := range sub {
				out[a] = true
			}
			return
		}
		out["param:"+x.Name()] = true
		if f := x.Parent(); f != nil {
			for i, q := range f.Params {
				if q == x {
					out[fmt.Sprintf("param#%d", i)] = true // positional (receiver = 0): independent of the source name
				}
			}
		}
	case *ssa.FreeVar:
		out["fv:"+x.Name()] = true
	case *ssa.Global:
		out["global:"+Path(x)] = true
	case *ssa.BinOp:
		atomsRec(x.X, out, seen, depth+1)
		atomsRec(x.Y, out, seen, depth+1)
	case *ssa.UnOp:
		if x.Op == token.MUL {
			// load
			switch a := x.X.(type) {
			case *ssa.FieldAddr:
				if f, ok := FieldOf(a); ok {
					out["field:"+f] = true
				}
				atomsRec(a.X, out, seen, depth+1)
			case *ssa.IndexAddr:
				out["elem"] = true
				atomsRec(a.X, out, seen, depth+1)
				atomsRec(a.Index, out, seen, depth+1)
			case *ssa.Alloc:
				// local cell: union over all stores
				for _, r := range *a.Referrers() {
					if st, ok := r.(*ssa.Store); ok && st.Addr == ssa.Value(a) {
						atomsRec(st.Val, out, seen, depth+1)
					}
				}
				if a.Comment != "" {
					out["var:"+a.Comment] = true
				}
				allocFlows(a, out, seen, depth)
			case *ssa.Global:
				out["global:"+Path(a)] = true
			default:
				atomsRec(x.X, out, seen, depth+1)
			}
		} else {
			atomsRec(x.X, out, seen, depth+1)
		}
	case *ssa.Convert:
		atomsRec(x.X, out, seen, depth+1)
	case *ssa.ChangeType:
		atomsRec(x.X, out, seen, depth+1)
	case *ssa.ChangeInterface:
		atomsRec(x.X, out, seen, depth+1)
	case *ssa.MakeInterface:
		atomsRec(x.X, out, seen, depth+1)
	case *ssa.Phi:
		if x.Comment != "" {
			out["var:"+x.Comment] = true
		}
		for _, e := range x.Edges {
			atomsRec(e, out, seen, depth+1)
		}
	case *ssa.Extract:
		if call, ok := x.Tuple.(*ssa.Call); ok {
			out[fmt.Sprintf("call:%s#%d", CallName(call), x.Index)] = true
		}
		atomsRec(x.Tuple, out, seen, depth+1)
	case *ssa.Call:
		name := CallName(x)
		if name == "builtin.len" {
			out["len"] = true
			atomsRec(x.Call.Args[0], out, seen, depth+1)
			return
		}
		if name == "builtin.cap" {
			out["cap"] = true
			atomsRec(x.Call.Args[0], out, seen, depth+1)
			return
		}
		out["call:"+name] = true
		for _, a := range x.Call.Args {
			atomsRec(a, out, seen, depth+1)
		}
		if x.Call.IsInvoke() {
			atomsRec(x.Call.Value, out, seen, depth+1)
		}
	case *ssa.Field:
		if f, ok := FieldOf(x); ok {
			out["field:"+f] = true
		}
		atomsRec(x.X, out, seen, depth+1)
	case *ssa.FieldAddr:
		if f, ok := FieldOf(x); ok {
			out["field:"+f] = true
		}
		atomsRec(x.X, out, seen, depth+1)
	case *ssa.Index:
		out["elem"] = true
		atomsRec(x.X, out, seen, depth+1)
		atomsRec(x.Index, out, seen, depth+1)
	case *ssa.IndexAddr:
		out["elem"] = true
		atomsRec(x.X, out, seen, depth+1)
		atomsRec(x.Index, out, seen, depth+1)
	case *ssa.Lookup:
		out["elem"] = true
		atomsRec(x.X, out, seen, depth+1)
		atomsRec(x.Index, out, seen, depth+1)
	case *ssa.Slice:
		atomsRec(x.X, out, seen, depth+1)
		atomsRec(x.Low, out, seen, depth+1)
		atomsRec(x.High, out, seen, depth+1)
	case *ssa.Alloc:
		if x.Comment != "" {
			out["var:"+x.Comment] = true
		}
		// a local object is what was put into it: values stored, and arguments of method
		// calls on it (n.SetBytes(b): n derives from b)
		allocFlows(x, out, seen, depth)
	case *ssa.TypeAssert:
		atomsRec(x.X, out, seen, depth+1)
	case *ssa.MakeSlice:
		out["make"] = true
	}
}

func allocFlows(a *ssa.Alloc, out map[string]bool, seen map[ssa.Value]bool, depth int) {
	if depth > 30 {
		return
	}
	var visit func(addr ssa.Value, d int)
	visit = func(addr ssa.Value, d int) {
		refs := addr.Referrers()
		if refs == nil || d > 3 {
			return
		}
		for _, r := range *refs {
			switch u := r.(type) {
			case *ssa.Store:
				if u.Addr == addr {
					atomsRec(u.Val, out, seen, depth+1)
				}
			case *ssa.FieldAddr:
				visit(u, d+1)
			case *ssa.Call:
				args := u.Call.Args
				if len(args) > 0 && args[0] == addr {
					for _, o := range args[1:] {
						atomsRec(o, out, seen, depth+1)
					}
				}
			}
		}
	}
	visit(a, 0)
}

// HasAll reports whether atoms contains every wanted atom. A wanted atom ending
// in '*' is a prefix pattern.
func HasAll(atoms map[string]bool, want ...string) bool {
	for _, w := range want {
		if strings.HasPrefix(w, "~") {
			sub := strings.TrimPrefix(w, "~")
			found := false
			for a := range atoms {
				if strings.Contains(a, sub) {
					found = true
					break
				}
			}
			if !found {
				return false
			}
			continue
		}
		if strings.HasSuffix(w, "*") {
			pre := strings.TrimSuffix(w, "*")
			found := false
			for a := range atoms {
				if strings.HasPrefix(a, pre) {
					found = true
					break
				}
			}
			if !found {
				return false
			}
			continue
		}
		if !atoms[w] {
			return false
		}
	}
	return true
}

func AtomList(atoms map[string]bool) string {
	var ks []string
	for k := range atoms {
		ks = append(ks, k)
	}
	sort.Strings(ks)
	return strings.Join(ks, ",")
}

// ConstOf returns the integer constant value of v (through conversions), if any.
func ConstOf(v ssa.Value) (*big.Int, bool) {
	for {
		switch x := v.(type) {
		case *ssa.Convert:
			v = x.X
			continue
		case *ssa.ChangeType:
			v = x.X
			continue
		case *ssa.Const:
			if x.Value == nil {
				return nil, false
			}
			c := constant.ToInt(x.Value)
			if c.Kind() != constant.Int {
				return nil, false
			}
			b, ok := new(big.Int).SetString(c.ExactString(), 10)
			return b, ok
		}
		return nil, false
	}
}

// ---- comparisons ----------------------------------------------------------------------------

// Cmp is a normalised comparison "Subject REL Other" that holds on the true edge of an If.
type Cmp struct {
	If      *ssa.If
	Subject ssa.Value
	Other   ssa.Value
	Rel     token.Token // EQL NEQ LSS LEQ GTR GEQ ; relation that holds on the TRUE edge
}

func flipRel(op token.Token) token.Token {
	switch op {
	case token.LSS:
		return token.GTR
	case token.LEQ:
		return token.GEQ
	case token.GTR:
		return token.LSS
	case token.GEQ:
		return token.LEQ
	}
	return op
}

func negRel(op token.Token) token.Token {
	switch op {
	case token.EQL:
		return token.NEQ
	case token.NEQ:
		return token.EQL
	case token.LSS:
		return token.GEQ
	case token.LEQ:
		return token.GTR
	case token.GTR:
		return token.LEQ
	case token.GEQ:
		return token.LSS
	}
	return op
}

// CondCmp decomposes an If condition into (x REL y) holding on the true edge; handles !cond.
func CondCmp(cond ssa.Value) (x, y ssa.Value, rel token.Token, ok bool) {
	neg := false
	for {
		if u, isU := cond.(*ssa.UnOp); isU && u.Op == token.NOT {
			neg = !neg
			cond = u.X
			continue
		}
		break
	}
	bo, isB := cond.(*ssa.BinOp)
	if !isB {
		return nil, nil, 0, false
	}
	switch bo.Op {
	case token.EQL, token.NEQ, token.LSS, token.LEQ, token.GTR, token.GEQ:
	default:
		return nil, nil, 0, false
	}
	rel = bo.Op
	if neg {
		rel = negRel(rel)
	}
	x, y = bo.X, bo.Y
	if _, xc := x.(*ssa.Const); xc {
		if _, yc := y.(*ssa.Const); !yc {
			// written from the other side ("0 == x"): constant to the right
			x, y, rel = y, x, flipRel(rel)
		}
	}
	return x, y, rel, true
}

// ---- failure exits -----------------------------------------------------------------------------

// FailKind describes what "rejecting" means for a function.
type FailKind struct {
	Result int    // index of the result that carries the verdict
	Kind   string // "false" | "true" | "nonnil" | "nil" | "zero" | "any-return" (the function returns at all, for void handlers with a penalty call)
	// Also accepted as rejection: reaching a call to one of these (module-relative full names), or panic/os.Exit
	ExitCalls []string
}

type pathEnv struct {
	cells  map[*ssa.Alloc]ssa.Value
	nonnil map[ssa.Value]bool
	isnil  map[ssa.Value]bool
}

func (e *pathEnv) clone() *pathEnv {
	n := &pathEnv{cells: map[*ssa.Alloc]ssa.Value{}, nonnil: map[ssa.Value]bool{}, isnil: map[ssa.Value]bool{}}
	for k, v := range e.cells {
		n.cells[k] = v
	}
	for k := range e.nonnil {
		n.nonnil[k] = true
	}
	for k := range e.isnil {
		n.isnil[k] = true
	}
	return n
}

// EdgeOutcome explores all paths starting with the CFG edge from -> to and
// classifies them: every path must end in a failure exit. It returns ok and, if
// not ok, a description of a path that reaches a non-failure exit.
func EdgeOutcome(prog *core.Program, from, to *ssa.BasicBlock, fk FailKind) (bool, string) {
	fn := from.Parent()
	env := &pathEnv{cells: map[*ssa.Alloc]ssa.Value{}, nonnil: map[ssa.Value]bool{}, isnil: map[ssa.Value]bool{}}
	// cells' values known at the end of 'from' within that block
	for _, ins := range from.Instrs {
		if st, ok := ins.(*ssa.Store); ok {
			if a, ok := st.Addr.(*ssa.Alloc); ok {
				env.cells[a] = st.Val
			}
		}
	}
	applyEdgeFacts(from, to, env)
	visited := map[string]bool{}
	var why string
	steps := 0
	var dfs func(pred, b *ssa.BasicBlock, env *pathEnv, depth int, inherited map[*ssa.Phi]ssa.Value) bool
	dfs = func(pred, b *ssa.BasicBlock, env *pathEnv, depth int, inherited map[*ssa.Phi]ssa.Value) bool {
		steps++
		if steps > 20000 || depth > 400 {
			why = "path exploration limit reached"
			return false
		}
		var pk []string
		for k, v := range inherited {
			if k.Block() != b && k.Block().Dominates(b) {
				pk = append(pk, k.Name()+"="+v.Name())
			}
		}
		sort.Strings(pk)
		key := fmt.Sprintf("%d<%d|%s|%s", b.Index, pred.Index, envKey(env), strings.Join(pk, ","))
		if visited[key] {
			return true
		}
		visited[key] = true
		if b == fn.Recover {
			return true
		}
		// phi resolution for this edge; phis resolved earlier on this path stay resolved in the blocks they
		// dominate (two results of an inlined helper merged by two phis in one block: the branch on the first
		// and the return of the second, one block later, belong to the same incoming edge)
		phis := map[*ssa.Phi]ssa.Value{}
		for k, v := range inherited {
			if k.Block() != b && k.Block().Dominates(b) {
				phis[k] = v
			}
		}
		pi := -1
		for i, p := range b.Preds {
			if p == pred {
				pi = i
			}
		}
		for _, ins := range b.Instrs {
			switch x := ins.(type) {
			case *ssa.Phi:
				if pi >= 0 {
					phis[x] = resolve(x.Edges[pi], phis, env)
				}
			case *ssa.Store:
				if a, ok := x.Addr.(*ssa.Alloc); ok {
					env.cells[a] = resolve(x.Val, phis, env)
				}
			case *ssa.Call:
				name := CallName(x)
				for _, ec := range fk.ExitCalls {
					if name == ec {
						return true
					}
				}
				if name == "os.Exit" {
					return true
				}
			case *ssa.Panic:
				return true
			case *ssa.Return:
				if fk.Kind == "any-return" {
					return true
				}
				if fk.Result >= len(x.Results) {
					why = "return without the verdict result"
					return false
				}
				rv := resolve(x.Results[fk.Result], phis, env)
				if isFailureValue(rv, fk, env) {
					return true
				}
				why = fmt.Sprintf("reaches a non-rejecting return at %s (value %s)", prog.Pos(InstrPos(x)), rv)
				return false
			}
		}
		// a branch on a boolean that this very edge decided ("x := a || b; if x" entered from the
		// short-circuit exit: the phi is the constant true) follows the decided side only
		decided := -1
		if iff, ok := b.Instrs[len(b.Instrs)-1].(*ssa.If); ok && len(b.Succs) == 2 {
			c := iff.Cond
			neg := false
			for {
				if u, isU := c.(*ssa.UnOp); isU && u.Op == token.NOT {
					neg = !neg
					c = u.X
					continue
				}
				break
			}
			if k, isC := resolve(c, phis, env).(*ssa.Const); isC && k.Value != nil && k.Value.Kind() == constant.Bool {
				if constant.BoolVal(k.Value) != neg {
					decided = 0
				} else {
					decided = 1
				}
			}
			// "if err != nil" right after an inlined helper's "return ..., errors.New(..)" / "return ..., nil":
			// the phi that merges the helper's results is resolved along this edge, so the test is decided
			if x, y, rel, ok := CondCmp(iff.Cond); ok && decided < 0 && (rel == token.EQL || rel == token.NEQ) {
				if yc, isC := resolve(y, phis, env).(*ssa.Const); isC && yc.Value == nil {
					xr := resolve(x, phis, env)
					isNil, known := false, false
					if xc, isC := xr.(*ssa.Const); isC && xc.Value == nil {
						isNil, known = true, true
					} else if env.isnil[xr] {
						isNil, known = true, true
					} else if isFailureValue(xr, FailKind{Kind: "nonnil"}, env) {
						isNil, known = false, true
					}
					if known {
						if isNil == (rel == token.EQL) {
							decided = 0
						} else {
							decided = 1
						}
					}
				}
			}
		}
		for si, s := range b.Succs {
			if decided >= 0 && si != decided {
				continue
			}
			ne := env.clone()
			// carry resolved phis that are cells? (phis are only needed inside the block and for conditions)
			applyEdgeFactsResolved(b, s, ne, phis)
			if !dfs(b, s, ne, depth+1, phis) {
				return false
			}
		}
		return true
	}
	ok := dfs(from, to, env, 0, nil)
	return ok, why
}

func envKey(e *pathEnv) string {
	var ks []string
	for a, v := range e.cells {
		ks = append(ks, a.Name()+"="+v.Name())
	}
	for v := range e.nonnil {
		ks = append(ks, "nn:"+v.Name())
	}
	sort.Strings(ks)
	return strings.Join(ks, ",")
}

func resolve(v ssa.Value, phis map[*ssa.Phi]ssa.Value, env *pathEnv) ssa.Value {
	for i := 0; i < 10; i++ {
		switch x := v.(type) {
		case *ssa.Phi:
			if r, ok := phis[x]; ok && r != v {
				v = r
				continue
			}
		case *ssa.UnOp:
			if x.Op == token.MUL {
				if a, ok := x.X.(*ssa.Alloc); ok {
					if r, ok := env.cells[a]; ok {
						v = r
						continue
					}
				}
			}
		case *ssa.ChangeType:
			v = x.X
			continue
		}
		break
	}
	return v
}

func applyEdgeFacts(from, to *ssa.BasicBlock, env *pathEnv) {
	applyEdgeFactsResolved(from, to, env, nil)
}

func applyEdgeFactsResolved(from, to *ssa.BasicBlock, env *pathEnv, phis map[*ssa.Phi]ssa.Value) {
	if len(from.Instrs) == 0 {
		return
	}
	iff, ok := from.Instrs[len(from.Instrs)-1].(*ssa.If)
	if !ok || len(from.Succs) != 2 || from.Succs[0] == from.Succs[1] {
		return
	}
	x, y, rel, ok := CondCmp(iff.Cond)
	if !ok {
		return
	}
	if from.Succs[1] == to {
		rel = negRel(rel)
	}
	xr, yr := resolve(x, phis, env), resolve(y, phis, env)
	isNilConst := func(v ssa.Value) bool {
		c, ok := v.(*ssa.Const)
		return ok && c.Value == nil
	}
	if isNilConst(yr) {
		if rel == token.NEQ {
			env.nonnil[xr] = true
			env.nonnil[x] = true
		} else if rel == token.EQL {
			env.isnil[xr] = true
			env.isnil[x] = true
		}
	} else if isNilConst(xr) {
		if rel == token.NEQ {
			env.nonnil[yr] = true
			env.nonnil[y] = true
		} else if rel == token.EQL {
			env.isnil[yr] = true
			env.isnil[y] = true
		}
	}
}

func isFailureValue(v ssa.Value, fk FailKind, env *pathEnv) bool {
	switch fk.Kind {
	case "false", "true":
		c, ok := v.(*ssa.Const)
		if !ok || c.Value == nil || c.Value.Kind() != constant.Bool {
			return false
		}
		return constant.BoolVal(c.Value) == (fk.Kind == "true")
	case "nil":
		if c, ok := v.(*ssa.Const); ok && c.Value == nil {
			return true
		}
		return env.isnil[v]
	case "zero":
		if c, ok := v.(*ssa.Const); ok {
			if c.Value == nil {
				return true
			}
			if b, ok := ConstOf(c); ok && b.Sign() == 0 {
				return true
			}
			if c.Value.Kind() == constant.String && constant.StringVal(c.Value) == "" {
				return true
			}
		}
		return false
	case "nonnil":
		if c, ok := v.(*ssa.Const); ok && c.Value == nil {
			return false
		}
		if env.nonnil[v] {
			return true
		}
		switch x := v.(type) {
		case *ssa.MakeInterface:
			return true
		case *ssa.UnOp:
			// a package-level sentinel error: var ErrX = errors.New(...), never reassigned outside init
			if g, ok := x.X.(*ssa.Global); ok && x.Op == token.MUL && sentinelError(g) {
				return true
			}
		case *ssa.Call:
			n := CallName(x)
			return n == "errors.New" || n == "fmt.Errorf"
		case *ssa.Extract:
			_ = x
		}
		return false
	}
	return false
}

// ---- guard search ---------------------------------------------------------------------------------

// GuardSpec describes one required check inside one function.
type GuardSpec struct {
	Fn *ssa.Function
	// Match decides whether an If implements the check; failOnTrue tells which edge is the rejecting one.
	Match func(iff *ssa.If) (ok bool, failOnTrue bool)
	Fail  FailKind
	// Dominance requirement: "returns" = the guard's block dominates every accepting return of Fn
	// (so no accepting path avoids the test); "" = none (guards inside loops/conditional contexts)
	Dom string
	// Anchor (optional): the guard's block must dominate the block of this instruction
	Anchor ssa.Instruction
}

type GuardResult struct {
	Matches []*ssa.If
	OK      bool
	Problem string
	Where   token.Pos
}

// CheckGuard finds the Ifs matching the spec and verifies the failing edge and dominance.
// One match that satisfies everything discharges the obligation.
func CheckGuard(prog *core.Program, spec GuardSpec) GuardResult {
	res := GuardResult{}
	if spec.Fn == nil {
		res.Problem = "function not found"
		return res
	}
	var problems []string
	for _, b := range spec.Fn.Blocks {
		if len(b.Instrs) == 0 {
			continue
		}
		iff, ok := b.Instrs[len(b.Instrs)-1].(*ssa.If)
		if !ok {
			continue
		}
		m, failOnTrue := MatchIf(spec.Match, iff)
		if !m {
			m, failOnTrue = matchThroughHelper(prog, spec, iff)
		}
		if !m {
			continue
		}
		res.Matches = append(res.Matches, iff)
		failSucc := b.Succs[1]
		if failOnTrue {
			failSucc = b.Succs[0]
		}
		ok2, why := EdgeOutcome(prog, b, failSucc, spec.Fail)
		if !ok2 {
			problems = append(problems, fmt.Sprintf("check at %s does not reject: %s", prog.Pos(InstrPos(iff)), why))
			continue
		}
		if spec.Dom == "returns" {
			bad := ""
			for _, rb := range spec.Fn.Blocks {
				if rb == spec.Fn.Recover || len(rb.Instrs) == 0 {
					continue
				}
				ret, isRet := rb.Instrs[len(rb.Instrs)-1].(*ssa.Return)
				if !isRet {
					continue
				}
				if b.Dominates(rb) {
					continue
				}
				// a return not dominated by the guard must itself be a rejecting return on every path into it
				if AcceptingReturnPossible(ret, spec.Fail) {
					bad = prog.Pos(InstrPos(ret))
					break
				}
			}
			if bad != "" {
				problems = append(problems, fmt.Sprintf("check at %s can be bypassed: accepting return at %s is not dominated by it", prog.Pos(InstrPos(iff)), bad))
				continue
			}
		}
		if spec.Anchor != nil && !b.Dominates(spec.Anchor.Block()) {
			problems = append(problems, fmt.Sprintf("check at %s does not dominate the guarded effect at %s", prog.Pos(InstrPos(iff)), prog.Pos(InstrPos(spec.Anchor))))
			continue
		}
		res.OK = true
		res.Where = InstrPos(iff)
		return res
	}
	if len(res.Matches) == 0 {
		res.Problem = "no such check in " + core.FuncName(spec.Fn)
	} else {
		res.Problem = strings.Join(problems, "; ")
		res.Where = InstrPos(res.Matches[0])
	}
	return res
}

// AcceptingReturnPossible: may this return carry an accepting verdict? (flow-insensitive on phis/cells)
func AcceptingReturnPossible(ret *ssa.Return, fk FailKind) bool {
	if fk.Kind == "any-return" {
		return false
	}
	if fk.Result >= len(ret.Results) {
		return true
	}
	// a return that sits under a test of the very value it returns ("if er != nil { return }") carries
	// the tested outcome, whatever the value's other sources are
	{
		cs := DomConds(ret.Block())
		e := Expr(ret.Results[fk.Result])
		switch fk.Kind {
		case "nonnil":
			if HasCond(cs, "("+e+" != nil)", true) {
				return false
			}
		case "nil":
			if HasCond(cs, "("+e+" == nil)", true) {
				return false
			}
		case "false":
			for _, c := range cs {
				if c.Cond == e && !c.True {
					return false
				}
			}
		case "true":
			for _, c := range cs {
				if c.Cond == e && c.True {
					return false
				}
			}
		}
	}
	var vals []ssa.Value
	seen := map[ssa.Value]bool{}
	var collect func(v ssa.Value, d int)
	collect = func(v ssa.Value, d int) {
		if seen[v] || d > 20 {
			return
		}
		seen[v] = true
		switch x := v.(type) {
		case *ssa.Phi:
			for _, e := range x.Edges {
				collect(e, d+1)
			}
			return
		case *ssa.UnOp:
			if x.Op == token.MUL {
				if a, ok := x.X.(*ssa.Alloc); ok {
					n := 0
					for _, r := range *a.Referrers() {
						if st, ok := r.(*ssa.Store); ok && st.Addr == ssa.Value(a) {
							collect(st.Val, d+1)
							n++
						}
					}
					if n > 0 {
						// zero value of the cell is also possible
						vals = append(vals, ssa.NewConst(nil, Deref(a.Type())))
						return
					}
				}
			}
		}
		vals = append(vals, v)
	}
	// a cell stored earlier in the return's own block has exactly that value
	start := ret.Results[fk.Result]
	if ld, ok := start.(*ssa.UnOp); ok && ld.Op == token.MUL {
		if a, ok := ld.X.(*ssa.Alloc); ok {
			var last *ssa.Store
			for _, ins := range ret.Block().Instrs {
				if ins == ssa.Instruction(ld) {
					break
				}
				if st, ok := ins.(*ssa.Store); ok && st.Addr == ssa.Value(a) {
					last = st
				}
			}
			if last != nil {
				start = last.Val
			}
		}
	}
	collect(start, 0)
	env := &pathEnv{cells: map[*ssa.Alloc]ssa.Value{}, nonnil: map[ssa.Value]bool{}, isnil: map[ssa.Value]bool{}}
	for _, v := range vals {
		if !isFailureValue(v, fk, env) {
			// a zero-valued bool/pointer const created above: check kinds
			if c, ok := v.(*ssa.Const); ok && c.Value == nil {
				switch fk.Kind {
				case "false", "nil", "zero":
					continue
				}
			}
			return true
		}
	}
	return false
}

// ---- ready-made matchers -----------------------------------------------------------------------------

// MatchCmpConst matches a comparison of a value whose provenance contains all
// subject atoms with the integer constant k, such that the rejecting region is
// exactly { subject failRel k }  (e.g. failRel ">" k=100 : reject iff subject > 100).
func MatchCmpConst(k int64, failRel token.Token, subject ...string) func(*ssa.If) (bool, bool) {
	return MatchCmpBig(big.NewInt(k), failRel, subject...)
}

func MatchCmpBig(k *big.Int, failRel token.Token, subject ...string) func(*ssa.If) (bool, bool) {
	return func(iff *ssa.If) (bool, bool) {
		x, y, rel, ok := CondCmp(iff.Cond)
		if !ok {
			return false, false
		}
		var subj ssa.Value
		var c *big.Int
		if cv, isC := ConstOf(y); isC {
			subj, c = x, cv
		} else if cv, isC := ConstOf(x); isC {
			subj, c = y, cv
			rel = flipRel(rel)
		} else {
			return false, false
		}
		if !HasAll(Atoms(subj), subject...) {
			return false, false
		}
		// true edge: subj rel c. Is the true region or the false region equal to {subj failRel k}?
		if sameRegion(rel, c, failRel, k) {
			return true, true
		}
		if sameRegion(negRel(rel), c, failRel, k) {
			return true, false
		}
		return false, false
	}
}

// sameRegion: {x | x r1 c1} == {x | x r2 c2} over the integers
func sameRegion(r1 token.Token, c1 *big.Int, r2 token.Token, c2 *big.Int) bool {
	lo1, hi1, ok1 := region(r1, c1)
	lo2, hi2, ok2 := region(r2, c2)
	if !ok1 || !ok2 {
		return r1 == r2 && c1.Cmp(c2) == 0
	}
	eq := func(a, b *big.Int) bool {
		if a == nil || b == nil {
			return a == nil && b == nil
		}
		return a.Cmp(b) == 0
	}
	return eq(lo1, lo2) && eq(hi1, hi2)
}

// region as closed interval [lo,hi] with nil = unbounded; EQL/NEQ are not intervals (NEQ) or are points
func region(r token.Token, c *big.Int) (lo, hi *big.Int, ok bool) {
	one := big.NewInt(1)
	switch r {
	case token.LSS:
		return nil, new(big.Int).Sub(c, one), true
	case token.LEQ:
		return nil, new(big.Int).Set(c), true
	case token.GTR:
		return new(big.Int).Add(c, one), nil, true
	case token.GEQ:
		return new(big.Int).Set(c), nil, true
	case token.EQL:
		return new(big.Int).Set(c), new(big.Int).Set(c), true
	}
	return nil, nil, false
}

// MatchCmpValues matches a comparison between two non-constant values identified by provenance:
// rejecting region { a failRel b }.
func MatchCmpValues(failRel token.Token, a []string, b []string) func(*ssa.If) (bool, bool) {
	return func(iff *ssa.If) (bool, bool) {
		x, y, rel, ok := CondCmp(iff.Cond)
		if !ok {
			return false, false
		}
		ax, ay := Atoms(x), Atoms(y)
		if HasAll(ax, a...) && HasAll(ay, b...) {
		} else if HasAll(ay, a...) && HasAll(ax, b...) {
			rel = flipRel(rel)
		} else {
			return false, false
		}
		if rel == failRel {
			return true, true
		}
		if negRel(rel) == failRel {
			return true, false
		}
		return false, false
	}
}

// MatchBoolCall matches "if f(...)" / "if !f(...)" on the bool result of a callee;
// rejectWhen is the value of the call result for which the code must reject.
func MatchBoolCall(rejectWhen bool, callees ...string) func(*ssa.If) (bool, bool) {
	return func(iff *ssa.If) (bool, bool) {
		cond := iff.Cond
		neg := false
		for {
			if u, ok := cond.(*ssa.UnOp); ok && u.Op == token.NOT {
				neg = !neg
				cond = u.X
				continue
			}
			break
		}
		var call *ssa.Call
		switch x := cond.(type) {
		case *ssa.Call:
			call = x
		case *ssa.Extract:
			call, _ = x.Tuple.(*ssa.Call)
		}
		if call == nil || !IsCall(call, callees...) {
			return false, false
		}
		// true edge taken when (result != neg)
		// reject when result == rejectWhen  => failOnTrue iff (rejectWhen != neg)
		return true, rejectWhen != neg
	}
}

var _ = types.Typ

// FlagTrueConditions: for a boolean phi (a flag variable), the branch conditions
// under which it is assigned true: for every incoming edge carrying the constant
// true, the nearest dominating If whose taken edge leads to that predecessor.
// Returns the comparisons (normalised to hold when the flag gets set).
func FlagTrueConditions(phi *ssa.Phi) []Cmp {
	var out []Cmp
	seen := map[*ssa.Phi]bool{}
	var rec func(phi *ssa.Phi)
	rec = func(phi *ssa.Phi) {
		if seen[phi] {
			return
		}
		seen[phi] = true
		b := phi.Block()
		for i, e := range phi.Edges {
			if inner, ok := e.(*ssa.Phi); ok {
				rec(inner)
				continue
			}
			c, ok := e.(*ssa.Const)
			if !ok || c.Value == nil || c.Value.Kind() != constant.Bool || !constant.BoolVal(c.Value) {
				continue
			}
			pred := b.Preds[i]
			// the constant true flows in from pred: find the branch that selects pred
			cur := pred
			for cur != nil {
				if len(cur.Preds) != 1 {
					out = append(out, Cmp{}) // assigned on a path that is not selected by a single branch
					break
				}
				up := cur.Preds[0]
				if iff, ok := up.Instrs[len(up.Instrs)-1].(*ssa.If); ok && len(up.Succs) == 2 {
					x, y, rel, ok := CondCmp(iff.Cond)
					if ok {
						if up.Succs[1] == cur {
							rel = negRel(rel)
						}
						out = append(out, Cmp{If: iff, Subject: x, Other: y, Rel: rel})
					} else {
						out = append(out, Cmp{})
					}
					break
				}
				cur = up
			}
		}
	}
	rec(phi)
	return out
}

// ReachableAvoiding: blocks reachable from the successors of 'from' without entering 'avoid'.
func ReachableAvoiding(from []*ssa.BasicBlock, avoid *ssa.BasicBlock) map[*ssa.BasicBlock]bool {
	seen := map[*ssa.BasicBlock]bool{}
	var st []*ssa.BasicBlock
	for _, f := range from {
		st = append(st, f.Succs...)
	}
	for len(st) > 0 {
		b := st[len(st)-1]
		st = st[:len(st)-1]
		if seen[b] || b == avoid {
			continue
		}
		seen[b] = true
		st = append(st, b.Succs...)
	}
	return seen
}

// AnyOf combines matchers: the first that matches decides.
func AnyOf(ms ...func(*ssa.If) (bool, bool)) func(*ssa.If) (bool, bool) {
	return func(iff *ssa.If) (bool, bool) {
		for _, m := range ms {
			if ok, f := m(iff); ok {
				return true, f
			}
		}
		return false, false
	}
}

// MatchBoolCallAtoms: like MatchBoolCall, additionally requiring the call's arguments
// (incl. receiver) to carry the given provenance atoms.
func MatchBoolCallAtoms(rejectWhen bool, callee string, atoms ...string) func(*ssa.If) (bool, bool) {
	base := MatchBoolCall(rejectWhen, callee)
	return func(iff *ssa.If) (bool, bool) {
		ok, f := base(iff)
		if !ok {
			return false, false
		}
		cond := iff.Cond
		for {
			if u, isU := cond.(*ssa.UnOp); isU && u.Op == token.NOT {
				cond = u.X
				continue
			}
			break
		}
		if !HasAll(Atoms(cond), atoms...) {
			return false, false
		}
		return true, f
	}
}

// ResultUsed reports whether the value of a call is consumed by something other than debug info.
func ResultUsed(c *ssa.Call) bool {
	refs := c.Referrers()
	if refs == nil {
		return false
	}
	for _, r := range *refs {
		if _, ok := r.(*ssa.DebugRef); ok {
			continue
		}
		return true
	}
	return false
}

var sentinelMemo = map[*ssa.Global]bool{}

// sentinelError: a global of type error that is assigned exactly once, in the package initialiser, from errors.New / fmt.Errorf
func sentinelError(g *ssa.Global) bool {
	if v, ok := sentinelMemo[g]; ok {
		return v
	}
	res := false
	if g.Pkg != nil {
		n, okc := 0, false
		for _, m := range g.Pkg.Members {
			fn, isF := m.(*ssa.Function)
			if !isF {
				continue
			}
			for _, f := range WithClosures(fn) {
				Instrs(f, func(i ssa.Instruction) {
					if st, ok := i.(*ssa.Store); ok && st.Addr == ssa.Value(g) {
						n++
						if c, ok := st.Val.(*ssa.Call); ok && fn.Name() == "init" {
							if cn := CallName(c); cn == "errors.New" || cn == "fmt.Errorf" {
								okc = true
							}
						}
					}
				})
			}
		}
		res = n == 1 && okc
	}
	sentinelMemo[g] = res
	return res
}

// MatchIf applies a branch matcher to an If and, when the If's condition is a boolean that was computed as
// a value ("case a && b:" of a tagless switch, "x := a || b; if x"), to its last operand as well: arriving
// through the computed edge the phi has that operand's value, so a test recognised in the operand decides
// the branch in the same direction.  A negation of the phi flips the direction.
func MatchIf(m func(*ssa.If) (bool, bool), iff *ssa.If) (bool, bool) {
	if ok, f := m(iff); ok {
		return ok, f
	}
	cond := iff.Cond
	neg := false
	for depth := 0; depth < 4; depth++ {
		if u, ok := cond.(*ssa.UnOp); ok && u.Op == token.NOT {
			neg = !neg
			cond = u.X
			continue
		}
		phi, ok := cond.(*ssa.Phi)
		if !ok || !isBoolType(phi.Type()) {
			return false, false
		}
		var rest []ssa.Value
		for _, e := range phi.Edges {
			if c, isC := e.(*ssa.Const); isC && c.Value != nil {
				continue
			}
			rest = append(rest, e)
		}
		if len(rest) != 1 || len(rest) == len(phi.Edges) {
			return false, false
		}
		cond = rest[0]
		tmp := *iff
		tmp.Cond = cond
		if ok, f := m(&tmp); ok {
			return true, f != neg
		}
	}
	return false, false
}

// matchThroughHelper: "if out_of_range(&sig.R) { return false }" - the test the rule looks for was moved into
// a small boolean helper.  The helper is examined with its parameters standing for the arguments of this call:
// a branch (or the returned expression itself) inside it must match, its violating outcome must make the
// helper return the value for which the caller's branch rejects, and no path through the helper may return
// the other value without passing that test.
func matchThroughHelper(prog *core.Program, spec GuardSpec, iff *ssa.If) (bool, bool) {
	cond := iff.Cond
	neg := false
	for {
		if u, ok := cond.(*ssa.UnOp); ok && u.Op == token.NOT {
			neg = !neg
			cond = u.X
			continue
		}
		break
	}
	call, ok := cond.(*ssa.Call)
	if !ok {
		return false, false
	}
	f := StaticCallee(call)
	if f == nil || !core.InModule(f) || f.Blocks == nil || len(f.Blocks) > 16 || f == spec.Fn {
		return false, false
	}
	if res := f.Signature.Results(); res.Len() != 1 || !isBoolType(res.At(0).Type()) {
		return false, false
	}
	args := call.Call.Args
	if len(args) != len(f.Params) {
		return false, false
	}
	for i, par := range f.Params {
		paramAtomSubst[par] = Atoms(args[i])
	}
	defer func() {
		for _, par := range f.Params {
			delete(paramAtomSubst, par)
		}
	}()
	for _, helperTrueRejects := range []bool{true, false} {
		fk := FailKind{Result: 0, Kind: "false"}
		if helperTrueRejects {
			fk.Kind = "true"
		}
		found := false
		for _, b := range f.Blocks {
			switch last := b.Instrs[len(b.Instrs)-1].(type) {
			case *ssa.If:
				m, fot := MatchIf(spec.Match, last)
				if !m {
					continue
				}
				fs := b.Succs[1]
				if fot {
					fs = b.Succs[0]
				}
				if ok2, _ := EdgeOutcome(prog, b, fs, fk); !ok2 {
					continue
				}
				bypass := false
				for _, rb := range f.Blocks {
					if ret, isRet := rb.Instrs[len(rb.Instrs)-1].(*ssa.Return); isRet && !b.Dominates(rb) && AcceptingReturnPossible(ret, fk) {
						bypass = true
					}
				}
				if !bypass {
					found = true
				}
			case *ssa.Return:
				if len(last.Results) != 1 {
					continue
				}
				if _, isC := last.Results[0].(*ssa.Const); isC {
					continue
				}
				// the returned expression as a virtual branch: value v is returned as it is
				tmp := ssa.If{Cond: last.Results[0]}
				if m, fot := MatchIf(spec.Match, &tmp); m && fot == helperTrueRejects {
					// every other return of the helper is reached only ... accepted when this return dominates all
					// non-rejecting returns, i.e. it is the only return that can yield the accepting value
					bypass := false
					for _, rb := range f.Blocks {
						if ret, isRet := rb.Instrs[len(rb.Instrs)-1].(*ssa.Return); isRet && ret != last && AcceptingReturnPossible(ret, fk) {
							bypass = true
						}
					}
					if !bypass {
						found = true
					}
				}
			}
		}
		if found {
			// caller side: helper returning helperTrueRejects must take the rejecting edge
			return true, helperTrueRejects != neg
		}
	}
	return false, false
}

// CmpEdges gives the comparison an If branches on, in normal form (constant operand right), as the relation
// that holds on its true edge and the one that holds on its false edge - "if !(a < b)" and "if a >= b" with
// exchanged branches are the same to a caller that asks on which edge a relation holds.
func CmpEdges(iff *ssa.If) (x, y ssa.Value, relTrue, relFalse token.Token, ok bool) {
	x, y, relTrue, ok = CondCmp(iff.Cond)
	if !ok {
		return
	}
	return x, y, relTrue, negRel(relTrue), true
}

// EdgeWhere returns the successor of the If's block on which holds(x, y, rel) is true for the branch's
// comparison, or nil.
func EdgeWhere(iff *ssa.If, holds func(x, y ssa.Value, rel token.Token) bool) *ssa.BasicBlock {
	x, y, rt, rf, ok := CmpEdges(iff)
	if !ok {
		return nil
	}
	b := iff.Block()
	if holds(x, y, rt) {
		return b.Succs[0]
	}
	if holds(x, y, rf) {
		return b.Succs[1]
	}
	return nil
}

// DependsOn reports whether v is computed from w (w occurs among the transitive operands of v).
func DependsOn(v, w ssa.Value) bool {
	seen := map[ssa.Value]bool{}
	var walk func(x ssa.Value, d int) bool
	walk = func(x ssa.Value, d int) bool {
		if x == nil || seen[x] || d > 40 {
			return false
		}
		if x == w {
			return true
		}
		seen[x] = true
		ins, ok := x.(ssa.Instruction)
		if !ok {
			return false
		}
		for _, op := range ins.Operands(nil) {
			if *op != nil && walk(*op, d+1) {
				return true
			}
		}
		return false
	}
	return v != w && walk(v, 0)
}

// MatchCmpDependent matches "later rel earlier" between two values of the same kind (both carry the given
// atoms) where the first operand is the one computed from the other - e.g. the signature count of
// CHECKMULTISIG, whose stack position depends on the key count - however the comparison is oriented in the
// source.
func MatchCmpDependent(failRel token.Token, atoms ...string) func(*ssa.If) (bool, bool) {
	return func(iff *ssa.If) (bool, bool) {
		x, y, rel, ok := CondCmp(iff.Cond)
		if !ok || !HasAll(Atoms(x), atoms...) || !HasAll(Atoms(y), atoms...) {
			return false, false
		}
		switch {
		case DependsOn(x, y) && !DependsOn(y, x):
		case DependsOn(y, x) && !DependsOn(x, y):
			rel = flipRel(rel)
		default:
			return false, false
		}
		if rel == failRel {
			return true, true
		}
		if negRel(rel) == failRel {
			return true, false
		}
		return false, false
	}
}

// WithParamAtoms evaluates f while the given parameters stand for the given atom sets (the arguments of one
// call site): Atoms() of anything computed from such a parameter then yields the caller-side provenance.
func WithParamAtoms(sub map[*ssa.Parameter]map[string]bool, f func()) {
	old := map[*ssa.Parameter]map[string]bool{}
	for p, a := range sub {
		if prev, ok := paramAtomSubst[p]; ok {
			old[p] = prev
		}
		paramAtomSubst[p] = a
	}
	defer func() {
		for p := range sub {
			if prev, ok := old[p]; ok {
				paramAtomSubst[p] = prev
			} else {
				delete(paramAtomSubst, p)
			}
		}
	}()
	f()
}

// IsFailureValue reports whether v, as it stands (no path facts), is a rejecting result of kind fk.
func IsFailureValue(v ssa.Value, fk FailKind) bool {
	return isFailureValue(v, fk, &pathEnv{cells: map[*ssa.Alloc]ssa.Value{}, nonnil: map[ssa.Value]bool{}, isnil: map[ssa.Value]bool{}})
}

// MustPassBeforeReturn: does every feasible path from just after 'start' to a return of the function pass an
// instruction accepted by target?  Paths are followed with the values of boolean phis that are decided by
// the edges taken (a flag set to true on the way is known to be true at a later test of it), so that
// "if helperStartedSomething { mark = true }" is seen as marking whenever something was started.  Returns a
// description of an escaping path's end, or "".
func MustPassBeforeReturn(start ssa.Instruction, target func(ssa.Instruction) bool) string {
	type state struct {
		b     *ssa.BasicBlock
		from  int // index of the first instruction to look at
		known map[ssa.Value]bool
	}
	keyOf := func(s state) string {
		var ks []string
		for v, t := range s.known {
			ks = append(ks, fmt.Sprintf("%s=%v", v.Name(), t))
		}
		sort.Strings(ks)
		return fmt.Sprintf("%d|%s", s.b.Index, strings.Join(ks, ","))
	}
	resolve := func(v ssa.Value, known map[ssa.Value]bool) (bool, bool) {
		neg := false
		for {
			if u, ok := v.(*ssa.UnOp); ok && u.Op == token.NOT {
				neg = !neg
				v = u.X
				continue
			}
			break
		}
		if c, ok := v.(*ssa.Const); ok && c.Value != nil && c.Value.Kind() == constant.Bool {
			return constant.BoolVal(c.Value) != neg, true
		}
		if t, ok := known[v]; ok {
			return t != neg, true
		}
		return false, false
	}
	b0 := start.Block()
	idx := 0
	for i, ins := range b0.Instrs {
		if ins == start {
			idx = i + 1
		}
	}
	seen := map[string]bool{}
	work := []state{{b0, idx, map[ssa.Value]bool{}}}
	for len(work) > 0 {
		s := work[len(work)-1]
		work = work[:len(work)-1]
		passed := false
		for _, ins := range s.b.Instrs[s.from:] {
			if target(ins) {
				passed = true
				break
			}
		}
		if passed {
			continue
		}
		last := s.b.Instrs[len(s.b.Instrs)-1]
		if _, isRet := last.(*ssa.Return); isRet {
			return "the return at block " + fmt.Sprint(s.b.Index)
		}
		succs := s.b.Succs
		if iff, ok := last.(*ssa.If); ok && len(succs) == 2 {
			if t, ok := resolve(iff.Cond, s.known); ok {
				if t {
					succs = succs[:1]
				} else {
					succs = succs[1:]
				}
			}
		}
		for _, nb := range succs {
			ei := -1
			for k, pr := range nb.Preds {
				if pr == s.b {
					ei = k
				}
			}
			nk := map[ssa.Value]bool{}
			for v, t := range s.known {
				nk[v] = t
			}
			var upd []func()
			for _, ins := range nb.Instrs {
				ph, ok := ins.(*ssa.Phi)
				if !ok {
					break
				}
				ph2 := ph
				if ei >= 0 {
					if t, ok := resolve(ph.Edges[ei], s.known); ok {
						upd = append(upd, func() { nk[ph2] = t })
						continue
					}
				}
				upd = append(upd, func() { delete(nk, ph2) })
			}
			for _, f := range upd {
				f()
			}
			ns := state{nb, 0, nk}
			if k := keyOf(ns); !seen[k] {
				seen[k] = true
				work = append(work, ns)
			}
		}
	}
	return ""
}

package an

// E-MAG (b): magnitude typestate of field elements through the group code.
// Every Field location carries (magnitude, normalised). The element operations'
// contracts (proved for the limb code by the interval interpreter) are applied
// at each call: Mul/Sqr need operands of magnitude <= 8, Negate(x, m) needs
// mag(x) <= m, comparisons and serialisation need normalised operands. Records
// (XYZ / XY) entering or leaving a function satisfy a coordinate invariant that
// is computed as the least fixpoint over all functions of the package.

import (
	"fmt"
	"go/token"
	"go/types"
	"sort"
	"strings"

	"gcv/internal/core"

	"golang.org/x/tools/go/ssa"
)

const magTop = 99

type magVal struct {
	m    int
	norm bool
}

func (a magVal) join(b magVal) magVal {
	r := a
	if b.m > r.m {
		r.m = b.m
	}
	r.norm = a.norm && b.norm
	return r
}

type magState map[string]magVal

func (s magState) clone() magState {
	n := magState{}
	for k, v := range s {
		n[k] = v
	}
	return n
}

func (s magState) joinWith(o magState) bool {
	ch := false
	for k, v := range o {
		if cur, ok := s[k]; ok {
			j := cur.join(v)
			if j != cur {
				s[k] = j
				ch = true
			}
		} else {
			s[k] = v
			ch = true
		}
	}
	return ch
}

type MagProblem struct {
	Fn   *ssa.Function
	Pos  token.Pos
	Key  string
	What string
}

type MagAnalysis struct {
	Prog    *core.Program
	PkgPath string
	Elem    *types.Named
	// Inv: coordinate invariant per record type name -> coordinate -> max magnitude
	Inv      map[string]map[string]int
	Problems []MagProblem
	Sites    int
	Funcs    int
	MaxMul   int
	collect  bool
	grew     bool
	probSeen map[string]bool
	// ParamMag: assumed magnitude of *Field parameters, the maximum over all call sites in the package
	ParamMag map[*ssa.Function]map[int]magVal
	// ExitSum: state of record-parameter coordinates written by a function, at its exits
	ExitSum map[*ssa.Function]map[string]magVal
}

func NewMagAnalysis(p *core.Program, pkgPath string, elem *types.Named) *MagAnalysis {
	return &MagAnalysis{Prog: p, PkgPath: pkgPath, Elem: elem, Inv: map[string]map[string]int{}, MaxMul: 8, probSeen: map[string]bool{},
		ParamMag: map[*ssa.Function]map[int]magVal{}, ExitSum: map[*ssa.Function]map[string]magVal{}}
}

func (ma *MagAnalysis) isElem(t types.Type) bool { return types.Identical(t, ma.Elem) }

func (ma *MagAnalysis) recordType(t types.Type) (string, *types.Struct, bool) {
	n, ok := Deref(t).(*types.Named)
	if !ok {
		return "", nil, false
	}
	st, ok := n.Underlying().(*types.Struct)
	if !ok {
		return "", nil, false
	}
	has := false
	for i := 0; i < st.NumFields(); i++ {
		if ma.isElem(st.Field(i).Type()) {
			has = true
		}
	}
	if !has || n.Obj().Pkg() == nil || !strings.HasSuffix(n.Obj().Pkg().Path(), ma.PkgPath) {
		return "", nil, false
	}
	return n.Obj().Name(), st, true
}

func (ma *MagAnalysis) inv(rec, coord string) magVal {
	if m, ok := ma.Inv[rec]; ok {
		if v, ok := m[coord]; ok {
			return magVal{v, false}
		}
	}
	return magVal{1, false}
}

func (ma *MagAnalysis) raise(rec, coord string, m int) {
	if ma.Inv[rec] == nil {
		ma.Inv[rec] = map[string]int{}
	}
	cur, ok := ma.Inv[rec][coord]
	if !ok {
		cur = 1
	}
	if m > cur {
		ma.Inv[rec][coord] = m
		ma.grew = true
	}
}

func (ma *MagAnalysis) problem(fn *ssa.Function, pos token.Pos, key, what string) {
	if !ma.collect {
		return
	}
	k := core.FuncName(fn) + "|" + key
	if ma.probSeen[k] {
		return
	}
	ma.probSeen[k] = true
	ma.Problems = append(ma.Problems, MagProblem{fn, pos, k, what})
}

// loc classifies an address of a Field value.
//
//	local:  "L:<name>"            a local Field variable
//	coord:  "C:<base>.<coord>"    coordinate of a local record or of a record parameter (base = variable name)
//	ext:    "E:<Rec>.<coord>"     coordinate of a record reached through memory we do not track (tables, array elements)
//	other:  "" (unknown)
func (ma *MagAnalysis) loc(fn *ssa.Function, v ssa.Value) string {
	switch x := v.(type) {
	case *ssa.Alloc:
		if ma.isElem(Deref(x.Type())) {
			return "L:" + x.Name() + ":" + x.Comment
		}
	case *ssa.FieldAddr:
		st, ok := Deref(x.X.Type()).Underlying().(*types.Struct)
		if !ok {
			return ""
		}
		f := st.Field(x.Field)
		if !ma.isElem(f.Type()) {
			return ""
		}
		rec, _, isRec := ma.recordType(x.X.Type())
		if !isRec {
			// a Field inside some other struct (e.g. TheCurve.beta): external, normalised constant
			return "K:" + f.Name()
		}
		switch b := x.X.(type) {
		case *ssa.Parameter:
			return "C:" + b.Name() + "." + f.Name() + "|" + rec
		case *ssa.Alloc:
			return "C:" + b.Name() + ":" + b.Comment + "." + f.Name() + "|" + rec
		case *ssa.UnOp:
			if b.Op == token.MUL {
				if a, ok := b.X.(*ssa.Alloc); ok {
					// spilled pointer parameter
					var sv ssa.Value
					n := 0
					for _, r := range *a.Referrers() {
						if st, ok := r.(*ssa.Store); ok && st.Addr == ssa.Value(a) {
							sv = st.Val
							n++
						}
					}
					if p, ok := sv.(*ssa.Parameter); ok && n == 1 {
						return "C:" + p.Name() + "." + f.Name() + "|" + rec
					}
				}
			}
		}
		return "E:" + rec + "." + f.Name()
	case *ssa.Parameter:
		if p, ok := x.Type().Underlying().(*types.Pointer); ok && ma.isElem(p.Elem()) {
			return "P:" + x.Name()
		}
	case *ssa.IndexAddr:
		if ma.isElem(Deref(x.Type())) {
			return "X:elem"
		}
	case *ssa.UnOp:
		if x.Op == token.MUL {
			// spilled *Field parameter
			if a, ok := x.X.(*ssa.Alloc); ok {
				for _, r := range *a.Referrers() {
					if st, ok := r.(*ssa.Store); ok && st.Addr == ssa.Value(a) {
						if p, ok := st.Val.(*ssa.Parameter); ok {
							return ma.loc(fn, p)
						}
					}
				}
			}
		}
	}
	return ""
}

func (ma *MagAnalysis) get(st magState, fn *ssa.Function, l string) magVal {
	if v, ok := st[l]; ok {
		return v
	}
	switch {
	case strings.HasPrefix(l, "E:"):
		rc := strings.SplitN(strings.TrimPrefix(l, "E:"), ".", 2)
		return ma.inv(rc[0], rc[1])
	case strings.HasPrefix(l, "C:"):
		// parameter record coordinate not yet written: invariant; local record: zero value
		body := strings.TrimPrefix(l, "C:")
		i := strings.LastIndex(body, "|")
		rec := body[i+1:]
		bc := body[:i]
		j := strings.LastIndex(bc, ".")
		base, coord := bc[:j], bc[j+1:]
		if strings.Contains(base, ":") {
			return magVal{0, true} // local record, zero value
		}
		return ma.inv(rec, coord)
	case strings.HasPrefix(l, "K:"):
		return magVal{1, true}
	case strings.HasPrefix(l, "L:"):
		return magVal{0, true}
	case strings.HasPrefix(l, "P:"):
		// a *Field parameter of a helper: the maximum over its call sites in the package (0 if never called)
		name := strings.TrimPrefix(l, "P:")
		for i, p := range fn.Params {
			if p.Name() == name {
				if v, ok := ma.ParamMag[fn][i]; ok {
					return v
				}
				if fn.Object() != nil && fn.Object().Exported() {
					return magVal{1, false} // exported entry point without internal callers: documented contract magnitude 1
				}
				return magVal{0, true}
			}
		}
		return magVal{ma.MaxMul, false}
	}
	return magVal{ma.MaxMul, false}
}

func (ma *MagAnalysis) set(st magState, l string, v magVal) {
	if l == "" {
		return
	}
	if v.m > magTop {
		v.m = magTop
	}
	if strings.HasPrefix(l, "E:") || l == "X:elem" {
		// weak update of untracked memory: must satisfy / raises the invariant
		if strings.HasPrefix(l, "E:") {
			rc := strings.SplitN(strings.TrimPrefix(l, "E:"), ".", 2)
			ma.raise(rc[0], rc[1], v.m)
		}
		return
	}
	st[l] = v
}

// elemOpName returns the method name if the call is an operation on the element type.
func (ma *MagAnalysis) elemOp(c ssa.CallInstruction) string {
	f := CalleeFunc(c)
	if f == nil {
		return ""
	}
	sig := f.Type().(*types.Signature)
	if sig.Recv() == nil || !ma.isElem(Deref(sig.Recv().Type())) {
		return ""
	}
	return f.Name()
}

func (ma *MagAnalysis) analyseFn(fn *ssa.Function) {
	if fn.Blocks == nil {
		return
	}
	ma.Funcs++
	in := make([]magState, len(fn.Blocks))
	in[0] = magState{}
	work := []int{0}
	iter := 0
	for len(work) > 0 && iter < 4000 {
		iter++
		bi := work[0]
		work = work[1:]
		st := in[bi].clone()
		ma.block(fn, fn.Blocks[bi], st, false)
		for _, s := range fn.Blocks[bi].Succs {
			if in[s.Index] == nil {
				in[s.Index] = st.clone()
				work = append(work, s.Index)
			} else if in[s.Index].joinWith(st) {
				work = append(work, s.Index)
			}
		}
	}
	for _, b := range fn.Blocks {
		if in[b.Index] == nil || b == fn.Recover {
			continue
		}
		st := in[b.Index].clone()
		ma.block(fn, b, st, true)
	}
}

func (ma *MagAnalysis) need(fn *ssa.Function, final bool, ins ssa.Instruction, v magVal, max int, what string, l string) {
	if !final {
		return
	}
	ma.Sites++
	if v.m > max {
		ma.problem(fn, InstrPos(ins), fmt.Sprintf("%s|%s|%s", what, ma.Prog.SrcAt(InstrPos(ins)), shortLoc(l)),
			fmt.Sprintf("%s: operand %s may have magnitude %d > %d", what, shortLoc(l), v.m, max))
	}
}

func (ma *MagAnalysis) needNorm(fn *ssa.Function, final bool, ins ssa.Instruction, v magVal, what string, l string) {
	if !final {
		return
	}
	ma.Sites++
	if !v.norm {
		ma.problem(fn, InstrPos(ins), fmt.Sprintf("%s|%s|%s", what, ma.Prog.SrcAt(InstrPos(ins)), shortLoc(l)),
			fmt.Sprintf("%s on %s, which is not normalised on some path (magnitude %d)", what, shortLoc(l), v.m))
	}
}

func shortLoc(l string) string {
	if i := strings.Index(l, "|"); i >= 0 {
		l = l[:i]
	}
	l = strings.TrimPrefix(strings.TrimPrefix(strings.TrimPrefix(strings.TrimPrefix(l, "C:"), "L:"), "E:"), "P:")
	// drop ssa temp names "t12:"
	parts := strings.Split(l, ":")
	if len(parts) == 2 {
		return parts[1]
	}
	return l
}

func (ma *MagAnalysis) block(fn *ssa.Function, b *ssa.BasicBlock, st magState, final bool) {
	for _, ins := range b.Instrs {
		switch x := ins.(type) {
		case *ssa.Store:
			// Field copy  dst = src
			if ma.isElem(Deref(x.Addr.Type())) {
				var v magVal
				if ld, ok := x.Val.(*ssa.UnOp); ok && ld.Op == token.MUL {
					v = ma.get(st, fn, ma.loc(fn, ld.X))
				} else {
					v = magVal{0, true} // zero value / composite literal
				}
				ma.set(st, ma.loc(fn, x.Addr), v)
				continue
			}
			// whole record copy *dst = *src
			if rec, stt, ok := ma.recordType(x.Addr.Type()); ok {
				if ld, ok := x.Val.(*ssa.UnOp); ok && ld.Op == token.MUL {
					for i := 0; i < stt.NumFields(); i++ {
						if !ma.isElem(stt.Field(i).Type()) {
							continue
						}
						c := stt.Field(i).Name()
						src := ma.recCoordLoc(fn, ld.X, rec, c)
						dst := ma.recCoordLoc(fn, x.Addr, rec, c)
						ma.set(st, dst, ma.get(st, fn, src))
					}
				}
			}
		case ssa.CallInstruction:
			ma.call(fn, x, st, final)
		case *ssa.Return:
			if final {
				ma.exit(fn, x, st)
			}
		}
	}
}

// recCoordLoc: location of coordinate c of the record addressed by v.
func (ma *MagAnalysis) recCoordLoc(fn *ssa.Function, v ssa.Value, rec, c string) string {
	switch b := v.(type) {
	case *ssa.Parameter:
		return "C:" + b.Name() + "." + c + "|" + rec
	case *ssa.Alloc:
		return "C:" + b.Name() + ":" + b.Comment + "." + c + "|" + rec
	case *ssa.UnOp:
		if b.Op == token.MUL {
			if a, ok := b.X.(*ssa.Alloc); ok {
				for _, r := range *a.Referrers() {
					if st, ok := r.(*ssa.Store); ok && st.Addr == ssa.Value(a) {
						if p, ok := st.Val.(*ssa.Parameter); ok {
							return "C:" + p.Name() + "." + c + "|" + rec
						}
					}
				}
			}
		}
	}
	return "E:" + rec + "." + c
}

func (ma *MagAnalysis) call(fn *ssa.Function, c ssa.CallInstruction, st magState, final bool) {
	args := c.Common().Args
	if op := ma.elemOp(c); op != "" && len(args) > 0 {
		recv := ma.loc(fn, args[0])
		rv := ma.get(st, fn, recv)
		argLoc := func(i int) string {
			if i < len(args) {
				return ma.loc(fn, args[i])
			}
			return ""
		}
		ins := c.(ssa.Instruction)
		switch op {
		case "Mul":
			bl := argLoc(2)
			ma.need(fn, final, ins, rv, ma.MaxMul, "Mul", recv)
			ma.need(fn, final, ins, ma.get(st, fn, bl), ma.MaxMul, "Mul", bl)
			ma.set(st, argLoc(1), magVal{1, false})
		case "Sqr":
			ma.need(fn, final, ins, rv, ma.MaxMul, "Sqr", recv)
			ma.set(st, argLoc(1), magVal{1, false})
		case "Inv", "InvVar", "Sqrt":
			ma.need(fn, final, ins, rv, ma.MaxMul, op, recv)
			ma.set(st, argLoc(1), magVal{1, false})
		case "Normalize":
			ma.need(fn, final, ins, rv, 16, "Normalize", recv)
			ma.set(st, recv, magVal{1, true})
		case "Negate":
			m := -1
			if len(args) > 2 {
				if k, ok := ConstOf(args[2]); ok {
					m = int(k.Int64())
				}
			}
			if m < 0 {
				ma.problem(fn, InstrPos(ins), "Negate|non-constant-magnitude|"+ma.Prog.SrcAt(InstrPos(ins)), "Negate with a non-constant magnitude argument")
				m = magTop
			}
			ma.need(fn, final, ins, rv, m, fmt.Sprintf("Negate(.,%d)", m), recv)
			ma.set(st, argLoc(1), magVal{m + 1, false})
		case "SetAdd":
			al := argLoc(1)
			av := ma.get(st, fn, al)
			ma.set(st, recv, magVal{rv.m + av.m, false})
			ma.need(fn, final, ins, magVal{rv.m + av.m, false}, 32, "SetAdd result", recv)
		case "MulInt":
			k := magTop
			if len(args) > 1 {
				if kk, ok := ConstOf(args[1]); ok {
					k = int(kk.Int64())
				}
			}
			ma.set(st, recv, magVal{rv.m * k, false})
			ma.need(fn, final, ins, magVal{rv.m * k, false}, 32, "MulInt result", recv)
		case "SetInt", "SetB32", "SetBytes", "SetHex":
			ma.set(st, recv, magVal{1, true})
		case "Equals":
			ma.needNorm(fn, final, ins, rv, "Equals", recv)
			bl := argLoc(1)
			ma.needNorm(fn, final, ins, ma.get(st, fn, bl), "Equals", bl)
		case "IsZero", "IsOdd", "GetB32", "GetBig":
			ma.needNorm(fn, final, ins, rv, op, recv)
		}
		return
	}
	// record-level call inside the package: arguments must satisfy the invariant; written records get it back
	cal := StaticCallee(c)
	if cal == nil || cal.Blocks == nil {
		return
	}
	pk := core.FuncPkg(cal)
	if pk == nil || !strings.HasSuffix(pk.Path(), ma.PkgPath) {
		return
	}
	for ai, a := range args {
		// *Field argument: raise the callee's parameter assumption
		if pt, ok := a.Type().Underlying().(*types.Pointer); ok && ma.isElem(pt.Elem()) {
			v := ma.get(st, fn, ma.loc(fn, a))
			if ma.ParamMag[cal] == nil {
				ma.ParamMag[cal] = map[int]magVal{}
			}
			cur, have := ma.ParamMag[cal][ai]
			nv := v
			if have {
				nv = cur.join(v)
			}
			if !have || nv != cur {
				ma.ParamMag[cal][ai] = nv
				ma.grew = true
			}
			// the callee may write through it
			if es := ma.ExitSum[cal]; es != nil && ai < len(cal.Params) {
				if ev, ok := es["P:"+cal.Params[ai].Name()]; ok {
					ma.set(st, ma.loc(fn, a), ev)
				}
			}
			continue
		}
		rec, stt, ok := ma.recordType(a.Type())
		if !ok {
			continue
		}
		if _, isPtr := a.Type().Underlying().(*types.Pointer); !isPtr {
			continue
		}
		for i := 0; i < stt.NumFields(); i++ {
			if !ma.isElem(stt.Field(i).Type()) {
				continue
			}
			cn := stt.Field(i).Name()
			l := ma.recCoordLoc(fn, a, rec, cn)
			v := ma.get(st, fn, l)
			// passing a record: its coordinates must be within the invariant (raise it while computing the fixpoint)
			if !ma.collect {
				ma.raise(rec, cn, v.m)
			} else if final && v.m > ma.inv(rec, cn).m {
				ma.problem(fn, InstrPos(c.(ssa.Instruction)), "record-arg|"+ma.Prog.SrcAt(InstrPos(c.(ssa.Instruction)))+"|"+cn,
					fmt.Sprintf("record passed with %s of magnitude %d above the coordinate invariant %d", cn, v.m, ma.inv(rec, cn).m))
			}
			// after the call: what the callee leaves in that coordinate, if it writes it
			if strings.HasPrefix(l, "E:") || ai >= len(cal.Params) {
				continue
			}
			if es := ma.ExitSum[cal]; es != nil {
				if ev, ok := es["C:"+cal.Params[ai].Name()+"."+cn+"|"+rec]; ok {
					st[l] = ev
				}
			}
		}
	}
}

func (ma *MagAnalysis) exit(fn *ssa.Function, ret *ssa.Return, st magState) {
	// exit summary of everything reachable through parameters
	es := ma.ExitSum[fn]
	if es == nil {
		es = map[string]magVal{}
		ma.ExitSum[fn] = es
	}
	for l, v := range st {
		if strings.HasPrefix(l, "P:") || (strings.HasPrefix(l, "C:") && !strings.Contains(strings.SplitN(strings.TrimPrefix(l, "C:"), ".", 2)[0], ":")) {
			if cur, ok := es[l]; ok {
				j := cur.join(v)
				if j != cur {
					es[l] = j
					ma.grew = true
				}
			} else {
				es[l] = v
				ma.grew = true
			}
		}
	}
	// record parameters leave within the invariant
	for _, p := range fn.Params {
		rec, stt, ok := ma.recordType(p.Type())
		if !ok {
			continue
		}
		if _, isPtr := p.Type().Underlying().(*types.Pointer); !isPtr {
			continue
		}
		for i := 0; i < stt.NumFields(); i++ {
			if !ma.isElem(stt.Field(i).Type()) {
				continue
			}
			cn := stt.Field(i).Name()
			l := "C:" + p.Name() + "." + cn + "|" + rec
			if v, ok := st[l]; ok {
				if !ma.collect {
					ma.raise(rec, cn, v.m)
				} else if v.m > ma.inv(rec, cn).m {
					ma.problem(fn, InstrPos(ret), "exit|"+p.Name()+"."+cn, fmt.Sprintf("%s.%s leaves with magnitude %d above the coordinate invariant %d", p.Name(), cn, v.m, ma.inv(rec, cn).m))
				}
			}
		}
	}
}

// Run computes the coordinate invariant (least fixpoint) and then collects problems.
func (ma *MagAnalysis) Run(fns []*ssa.Function) {
	sort.Slice(fns, func(i, j int) bool { return core.FuncName(fns[i]) < core.FuncName(fns[j]) })
	for round := 0; round < 40; round++ {
		ma.grew = false
		ma.collect = false
		for _, f := range fns {
			ma.analyseFn(f)
		}
		if !ma.grew {
			break
		}
	}
	ma.collect = true
	ma.Sites, ma.Funcs = 0, 0
	for _, f := range fns {
		ma.analyseFn(f)
	}
}

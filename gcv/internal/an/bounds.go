package an

// Bounds analysis (E-TAINT of DESIGN.md): for values derived from untrusted
// bytes, every index / slice bound / allocation size must be entailed by the
// linear facts that dominate it (branch conditions, induction-variable closed
// forms, type ranges, callee post-conditions). Arithmetic is linearised only
// where it provably does not wrap, so an unbounded multiplication such as
// 36*cnt stays opaque and nothing guarded through it counts as guarded.

import (
	"fmt"
	"go/constant"
	"go/token"
	"go/types"
	"math/big"
	"os"
	"regexp"
	"runtime/debug"
	"sort"
	"strings"

	"gcv/internal/core"

	"golang.org/x/tools/go/ssa"
)

// maxLen is the assumed upper bound on the length of any slice or string (2^40).
var maxLen = new(big.Int).Lsh(big.NewInt(1), 40)

// PostCond yields facts about a call's results given linear forms of its arguments.
// res(i) is the atom of result i (i = -1: the single result); argLen(i) = len of
// slice argument i; arg(i) = integer argument i (nil if not linear).
type PostCond func(res func(int) *Lin, argLen func(int) *Lin, arg func(int) *Lin) []Constraint

type BoundsConfig struct {
	// fields whose loads are untrusted data, "client/network.BCmsg.pl"
	TaintedFields map[string]bool
	// callee full name -> postcondition (trusted, but see VerifyPost)
	Post map[string]PostCond
	// functions never descended into (reason recorded by the caller of the analysis)
	Skip func(fn *ssa.Function) bool
	// RecoverScope: functions whose panics are converted into a rejection; inside
	// them only allocation sizes are obligations.
	RecoverScope func(fn *ssa.Function) bool
	// results of these callees are treated as untainted
	CleanResult map[string]bool
	// record invariants (verified at every store by VerifyFieldInvariants):
	// FieldMinLen: len(x.F) >= n ;  FieldLeLen: 0 <= x.F <= len(x.G) for sibling field G
	FieldMinLen map[string]int64
	FieldLeLen  map[string]string
	// FieldMax: assumed (not verified) upper bound of an integer field, e.g. stored sizes
	FieldMax map[string]int64
	MaxDepth int
}

type BoundOb struct {
	Fn        *ssa.Function
	Instr     ssa.Instruction
	Kind      string // index | slice-low | slice-high | slice-order | alloc | call-pre
	Expr      string // display of the sink
	Need      string // the inequality to prove, readable
	Proven    bool
	Facts     []string // facts available (on failure)
	Chain     []string // call chain from the root entry
	InRecover bool
}

type BoundsAnalysis struct {
	Prog            *core.Program
	Cfg             BoundsConfig
	Obs             []*BoundOb
	done            map[string]*fsum
	rets            map[*ssa.Function]*retSummary
	AssumptionSites []string
	FuncsAnalysed   map[*ssa.Function]bool
	retTaintMemo    map[*ssa.Function]bool
}

// fsum: summary of one (function, tainted-params) analysis
type fsum struct {
	pre        []preCond // lifted obligations over parameters
	retTainted bool
}

type preCond struct {
	// target >= 0 over atoms "P<i>" (integer param i) and "L<i>" (len of param i)
	target *Lin
	ob     *BoundOb
}

func NewBoundsAnalysis(p *core.Program, cfg BoundsConfig) *BoundsAnalysis {
	if cfg.MaxDepth == 0 {
		cfg.MaxDepth = 8
	}
	return &BoundsAnalysis{Prog: p, Cfg: cfg, done: map[string]*fsum{}, FuncsAnalysed: map[*ssa.Function]bool{}}
}

func (ba *BoundsAnalysis) carriesTaintedField(t types.Type) bool {
	st, ok := Deref(t).Underlying().(*types.Struct)
	if !ok {
		return false
	}
	tn := TypeName(t)
	for i := 0; i < st.NumFields(); i++ {
		if ba.Cfg.TaintedFields[tn+"."+st.Field(i).Name()] {
			return true
		}
	}
	return false
}

// AtReturns builds an analysis context for fn (no taint) and calls f for every
// return site with a linearisation function and a prover bound to that site.
func (ba *BoundsAnalysis) AtReturns(fn *ssa.Function, f func(ret *ssa.Return, lin func(ssa.Value) *Lin, prove func(*Lin) bool, show func(*Lin) string)) {
	c := &fctx{ba: ba, fn: fn, taint: map[ssa.Value]uint8{}, linMemo: map[ssa.Value]*Lin{}, intr: map[string][]Constraint{},
		disp: map[string]string{}, ivs: map[*ssa.Phi]*ivInfo{}, branch: map[*ssa.BasicBlock][]Constraint{},
		storesToField: map[string]bool{}, allocStores: map[*ssa.Alloc][]*ssa.Store{}, inProgress: map[ssa.Value]bool{},
		paramIdx: map[*ssa.Parameter]int{}, sum: &fsum{}, chain: []string{core.FuncName(fn)}}
	c.prepass()
	c.findIVs()
	for _, b := range fn.Blocks {
		if b == fn.Recover || len(b.Instrs) == 0 {
			continue
		}
		ret, ok := b.Instrs[len(b.Instrs)-1].(*ssa.Return)
		if !ok {
			continue
		}
		c.at, c.atEnd = ret, nil
		f(ret, c.lin, func(t *Lin) bool { return c.proveAt(b, t) }, c.show)
	}
}

// VerifyFieldInvariants checks, at every store to a field with a record invariant
// in any module function, that the stored value re-establishes the invariant.
func (ba *BoundsAnalysis) VerifyFieldInvariants() {
	for _, fn := range ba.Prog.ModuleFuncs() {
		var stores []*ssa.Store
		Instrs(fn, func(i ssa.Instruction) {
			if st, ok := i.(*ssa.Store); ok {
				if fa, ok := st.Addr.(*ssa.FieldAddr); ok {
					if f, ok := FieldOf(fa); ok {
						if _, a := ba.Cfg.FieldMinLen[f]; a {
							stores = append(stores, st)
						} else if _, b := ba.Cfg.FieldLeLen[f]; b {
							stores = append(stores, st)
						} else {
							for _, sib := range ba.Cfg.FieldLeLen {
								if strings.HasSuffix(f, "."+sib) {
									_ = sib
								}
							}
						}
					}
				}
			}
		})
		hasSib := false
		Instrs(fn, func(i ssa.Instruction) {
			if st, ok := i.(*ssa.Store); ok {
				if fa, ok := st.Addr.(*ssa.FieldAddr); ok {
					f, _ := FieldOf(fa)
					for kf, sib := range ba.Cfg.FieldLeLen {
						if f == kf[:strings.LastIndex(kf, ".")]+"."+sib {
							hasSib = true
						}
					}
				}
			}
		})
		if len(stores) == 0 && !hasSib {
			continue
		}
		c := &fctx{ba: ba, fn: fn, taint: map[ssa.Value]uint8{}, linMemo: map[ssa.Value]*Lin{}, intr: map[string][]Constraint{},
			disp: map[string]string{}, ivs: map[*ssa.Phi]*ivInfo{}, branch: map[*ssa.BasicBlock][]Constraint{},
			storesToField: map[string]bool{}, allocStores: map[*ssa.Alloc][]*ssa.Store{}, inProgress: map[ssa.Value]bool{},
			paramIdx: map[*ssa.Parameter]int{}, sum: &fsum{}, chain: []string{core.FuncName(fn)}}
		c.prepass()
		c.findIVs()
		// stores to a sibling-length field (x.Raw = v): every dependent field K (K <= len(x.Raw)) must be
		// re-established: either K's current value is provably <= len(v), or K is stored later on every path
		Instrs(fn, func(i ssa.Instruction) {
			st, ok := i.(*ssa.Store)
			if !ok {
				return
			}
			fa, ok := st.Addr.(*ssa.FieldAddr)
			if !ok {
				return
			}
			f, _ := FieldOf(fa)
			for kf, sib := range ba.Cfg.FieldLeLen {
				tn := kf[:strings.LastIndex(kf, ".")]
				if f != tn+"."+sib {
					continue
				}
				kname := kf[strings.LastIndex(kf, ".")+1:]
				base := Path(fa.X)
				// is K stored on every path from st to a return?
				var kstores []*ssa.Store
				Instrs(fn, func(j ssa.Instruction) {
					if s2, ok := j.(*ssa.Store); ok {
						if fa2, ok := s2.Addr.(*ssa.FieldAddr); ok && Path(fa2.X) == base {
							if g, _ := FieldOf(fa2); g == kf {
								kstores = append(kstores, s2)
							}
						}
					}
				})
				reest := len(kstores) > 0
				if reest {
					// reachability from st to any return avoiding all K-store blocks (block granularity)
					avoid := map[*ssa.BasicBlock]bool{}
					for _, ks := range kstores {
						if ks.Block() != st.Block() || instrIndex(ks) > instrIndex(st) {
							avoid[ks.Block()] = true
						}
					}
					seen := map[*ssa.BasicBlock]bool{}
					var stack []*ssa.BasicBlock
					if !avoid[st.Block()] {
						stack = append(stack, st.Block().Succs...)
						if _, isRet := st.Block().Instrs[len(st.Block().Instrs)-1].(*ssa.Return); isRet {
							reest = false
						}
					}
					for len(stack) > 0 && reest {
						b := stack[len(stack)-1]
						stack = stack[:len(stack)-1]
						if seen[b] || avoid[b] {
							continue
						}
						seen[b] = true
						if _, isRet := b.Instrs[len(b.Instrs)-1].(*ssa.Return); isRet {
							reest = false
						}
						stack = append(stack, b.Succs...)
					}
				}
				key := "store to " + f
				txt := ba.Prog.SrcAt(InstrPos(st))
				// Informational only: the relation K <= len(x.sib) is conditional in this code base
				// (TxCount == 0 means "TxOffset not valid"), so a store that replaces x.sib without
				// re-storing K is not a violation; it is recorded as an assumption site.
				ba.AssumptionSites = append(ba.AssumptionSites, fmt.Sprintf("%s: %s replaced at %s; dependent field .%s re-stored on every path: %v", core.FuncName(fn), key, ba.Prog.Pos(InstrPos(st)), kname, reest))
				_ = txt
			}
		})
		for _, st := range stores {
			fa := st.Addr.(*ssa.FieldAddr)
			f, _ := FieldOf(fa)
			txt := ba.Prog.SrcAt(InstrPos(st))
			if n, ok := ba.Cfg.FieldMinLen[f]; ok {
				l := c.lenOf(st.Val)
				c.ob(st, "record-inv", "store to "+f, fmt.Sprintf("len(stored value) >= %d  [%s]", n, txt), l.AddConst(-n), false)
			}
			if sib, ok := ba.Cfg.FieldLeLen[f]; ok {
				v := c.lin(st.Val)
				// the sibling's length: the value most recently stored to it in this function that dominates st, else its current load
				var sl *Lin
				base := Path(fa.X)
				Instrs(fn, func(i ssa.Instruction) {
					if s2, ok := i.(*ssa.Store); ok && s2 != st {
						if fa2, ok := s2.Addr.(*ssa.FieldAddr); ok && Path(fa2.X) == base {
							if g, _ := FieldOf(fa2); strings.HasSuffix(g, "."+sib) && TypeName(fa2.X.Type()) == TypeName(fa.X.Type()) {
								if s2.Block().Dominates(st.Block()) {
									sl = c.lenOf(s2.Val)
								}
							}
						}
					}
				})
				if sl == nil {
					sl = c.siblingLenAny(fa, sib)
				}
				c.ob(st, "record-inv", "store to "+f, "stored value >= 0  ["+txt+"]", v, false)
				if sl != nil {
					c.ob(st, "record-inv", "store to "+f, "stored value <= len(."+sib+")  ["+txt+"]", sl.Sub(v), false)
				}
			}
		}
	}
}

// siblingLenAny: len atom of base.sib for the record addressed by fa (creating a synthetic field-path atom).
func (c *fctx) siblingLenAny(fa *ssa.FieldAddr, sib string) *Lin {
	if l := c.siblingLen(fa, sib, nil); l != nil {
		return l
	}
	k := "len:m:" + Path(fa.X) + "." + sib
	if _, ok := c.intr[k]; !ok {
		c.disp[k] = "len(" + Path(fa.X) + "." + sib + ")"
		c.intr[k] = nil
		c.addRange(k, new(big.Int), maxLen, "0 <= len <= 2^40")
	}
	return LinAtom(k)
}

// Root analyses fn with the given parameters tainted (by index; receiver is index 0 for methods).
func (ba *BoundsAnalysis) Root(fn *ssa.Function, taintedParams []int) {
	t := map[int]bool{}
	for _, i := range taintedParams {
		t[i] = true
	}
	s := ba.analyse(fn, t, nil, []string{core.FuncName(fn)}, false)
	// unlifted preconditions at a root are violations: the root's caller is the network
	for _, pc := range s.pre {
		pc.ob.Proven = false
	}
}

// ---------------------------------------------------------------------------

type fctx struct {
	ba            *BoundsAnalysis
	fn            *ssa.Function
	taint         map[ssa.Value]uint8 // bit tV: attacker-influenced value/content, bit tL: attacker-influenced length
	linMemo       map[ssa.Value]*Lin
	intr          map[string][]Constraint // intrinsic facts per atom
	disp          map[string]string       // atom -> readable
	ivs           map[*ssa.Phi]*ivInfo
	branch        map[*ssa.BasicBlock][]Constraint
	neqAt         map[*ssa.BasicBlock][]neqFact // "d != 0" outcomes that dominate the block (see neqTighten)
	neqCollect    *[]neqFact
	hull          map[*ssa.BasicBlock][]Constraint
	storesToField map[string]bool
	allocStores   map[*ssa.Alloc][]*ssa.Store
	inProgress    map[ssa.Value]bool
	chain         []string
	inRecover     bool
	paramIdx      map[*ssa.Parameter]int
	sum           *fsum
	taintedFree   map[int]bool
	disj          map[string][][]Constraint // call -> disjunction (one conjunction per return site of the callee)
	atomCall      map[string]string         // result atom -> call
	cands         []*cand
	cellEsc       map[*ssa.Alloc]bool
	at            ssa.Instruction // current program point: sinks executed before it in its block are facts
	atEnd         *ssa.BasicBlock // or: the end of this block
	execMemo      map[ssa.Instruction][]Constraint
	execBusy      map[ssa.Instruction]bool
	blkExec       map[*ssa.BasicBlock][]Constraint
	cells         map[string]*cellSSA
	vcells        map[string]*vcell
	psiSeen       []*psiNode
	phiSeen       []*ssa.Phi
	cycleHits     int
	cintr         map[string][]condFact
}

type ivInfo struct {
	phi  *ssa.Phi
	init ssa.Value
	step int64
	incs []*ssa.BinOp
	ok   bool
}

func taintKey(fn *ssa.Function, t map[int]bool, fv map[int]bool) string {
	var ks []int
	for k := range t {
		ks = append(ks, k)
	}
	sort.Ints(ks)
	var fs []int
	for k := range fv {
		fs = append(fs, k)
	}
	sort.Ints(fs)
	return fmt.Sprintf("%p|%v|%v", fn, ks, fs)
}

func (ba *BoundsAnalysis) analyse(fn *ssa.Function, tparams map[int]bool, tfree map[int]bool, chain []string, inRecover bool) *fsum {
	key := taintKey(fn, tparams, tfree) + fmt.Sprint(inRecover)
	if s, ok := ba.done[key]; ok {
		return s
	}
	s := &fsum{}
	ba.done[key] = s // cycle guard: recursive calls see the empty summary
	if fn.Blocks == nil || len(chain) > ba.Cfg.MaxDepth {
		s.retTainted = true
		return s
	}
	if ba.Cfg.RecoverScope != nil && ba.Cfg.RecoverScope(fn) {
		inRecover = true
	}
	ba.FuncsAnalysed[fn] = true
	c := &fctx{ba: ba, fn: fn, taint: map[ssa.Value]uint8{}, linMemo: map[ssa.Value]*Lin{}, intr: map[string][]Constraint{},
		disp: map[string]string{}, ivs: map[*ssa.Phi]*ivInfo{}, branch: map[*ssa.BasicBlock][]Constraint{},
		storesToField: map[string]bool{}, allocStores: map[*ssa.Alloc][]*ssa.Store{}, inProgress: map[ssa.Value]bool{},
		chain: chain, inRecover: inRecover, paramIdx: map[*ssa.Parameter]int{}, sum: s, taintedFree: tfree}
	for i, p := range fn.Params {
		c.paramIdx[p] = i
		if tparams[i] {
			c.taint[p] = srcBits(p.Type())
		}
	}
	for i, fv := range fn.FreeVars {
		if tfree[i] {
			c.taint[fv] = srcBits(Deref(fv.Type()))
		}
	}
	c.prepass()
	c.propagateTaint()
	c.findIVs()
	c.sinks()
	c.loopProgress()
	return s
}

// returnsTainted: with no tainted parameter, does fn return data read from a tainted field
// (directly or through its callees)? Taint propagation only; memoised; recursion sees false.
func (ba *BoundsAnalysis) returnsTainted(fn *ssa.Function) bool {
	if ba.retTaintMemo == nil {
		ba.retTaintMemo = map[*ssa.Function]bool{}
	}
	if v, ok := ba.retTaintMemo[fn]; ok {
		return v
	}
	ba.retTaintMemo[fn] = false
	if fn.Blocks == nil {
		return false
	}
	c := &fctx{ba: ba, fn: fn, taint: map[ssa.Value]uint8{}, linMemo: map[ssa.Value]*Lin{}, intr: map[string][]Constraint{},
		disp: map[string]string{}, ivs: map[*ssa.Phi]*ivInfo{}, branch: map[*ssa.BasicBlock][]Constraint{},
		storesToField: map[string]bool{}, allocStores: map[*ssa.Alloc][]*ssa.Store{}, inProgress: map[ssa.Value]bool{},
		paramIdx: map[*ssa.Parameter]int{}, sum: &fsum{}}
	c.prepass()
	c.propagateTaint()
	res := false
	Instrs(fn, func(i ssa.Instruction) {
		if ret, ok := i.(*ssa.Return); ok {
			for _, r := range ret.Results {
				if c.taint[r] != 0 {
					res = true
				}
			}
		}
	})
	ba.retTaintMemo[fn] = res
	return res
}

// ---- pre-pass: stores -------------------------------------------------------------

func (c *fctx) prepass() {
	Instrs(c.fn, func(i ssa.Instruction) {
		if st, ok := i.(*ssa.Store); ok {
			switch a := st.Addr.(type) {
			case *ssa.Alloc:
				c.allocStores[a] = append(c.allocStores[a], st)
			case *ssa.FieldAddr:
				if f, ok := FieldOf(a); ok {
					c.storesToField[f] = true
				}
			}
		}
	})
}

// singleStore returns the only value ever stored to a local cell that is not
// otherwise written (captured parameters are spilled like this).
func (c *fctx) singleStore(a *ssa.Alloc) ssa.Value {
	sts := c.allocStores[a]
	if len(sts) != 1 {
		return nil
	}
	// the cell must not be passed to anything that could write through it, except closures reading it
	for _, r := range *a.Referrers() {
		switch x := r.(type) {
		case *ssa.Store:
			if x.Addr != a {
				return nil // address stored somewhere
			}
		case *ssa.UnOp:
		case *ssa.MakeClosure:
			// a closure may assign the captured variable
			if fn, ok := x.Fn.(*ssa.Function); ok {
				for i, b := range x.Bindings {
					if b == a && closureWrites(fn, i) {
						return nil
					}
				}
			}
		case *ssa.DebugRef:
		default:
			return nil
		}
	}
	return sts[0].Val
}

func closureWrites(fn *ssa.Function, fvIdx int) bool {
	if fvIdx >= len(fn.FreeVars) {
		return true
	}
	fv := fn.FreeVars[fvIdx]
	for _, r := range *fv.Referrers() {
		switch x := r.(type) {
		case *ssa.Store:
			if x.Addr == fv {
				return true
			}
		case *ssa.UnOp:
		case *ssa.MakeClosure:
			if f2, ok := x.Fn.(*ssa.Function); ok {
				for i, b := range x.Bindings {
					if b == ssa.Value(fv) && closureWrites(f2, i) {
						return true
					}
				}
			}
		default:
			return true
		}
	}
	return false
}

// canon strips value-preserving wrappers and resolves loads of single-store cells.
func (c *fctx) canon(v ssa.Value) ssa.Value {
	for i := 0; i < 20; i++ {
		switch x := v.(type) {
		case *ssa.ChangeType:
			v = x.X
			continue
		case *ssa.UnOp:
			if x.Op == token.MUL {
				if a, ok := x.X.(*ssa.Alloc); ok {
					if sv := c.singleStore(a); sv != nil {
						v = sv
						continue
					}
					if sv := c.reachingStore(x, a); sv != nil {
						v = sv
						continue
					}
				}
			}
		}
		break
	}
	return v
}

// ---- virtual SSA for memory cells that go/ssa does not lift ----------------------
// (named results / locals captured by a deferred recover closure, and integer
// fields of a record addressed through a stable path, e.g. bl.TxOffset)

type vcell struct {
	id     string // "a:<alloc name>" or "f:<path>.<field>"
	name   string
	typ    types.Type
	alloc  *ssa.Alloc
	stores []*ssa.Store
	entry  ssa.Value // for field cells: a load whose atom denotes the value on entry (may be nil)
}

type psiNode struct {
	cell *vcell
	b    *ssa.BasicBlock
}

type cellDef struct {
	st    *ssa.Store
	psi   *psiNode
	zero  bool
	entry bool
}

type cellSSA struct {
	in  map[*ssa.BasicBlock]cellDef
	out map[*ssa.BasicBlock]cellDef
	psi map[*ssa.BasicBlock]*psiNode
}

// cellOfLoad identifies the virtual cell a load reads, or nil.
func (c *fctx) cellOfLoad(ld *ssa.UnOp) *vcell {
	if ld.Op != token.MUL {
		return nil
	}
	switch a := ld.X.(type) {
	case *ssa.Alloc:
		return c.allocCell(a)
	case *ssa.FieldAddr:
		return c.fieldCell(a)
	}
	return nil
}

func (c *fctx) allocCell(a *ssa.Alloc) *vcell {
	id := "a:" + a.Name()
	if vc, ok := c.vcells[id]; ok {
		return vc
	}
	if c.vcells == nil {
		c.vcells = map[string]*vcell{}
	}
	c.vcells[id] = nil
	if _, _, isInt := intRange(Deref(a.Type())); !isInt {
		return nil
	}
	if len(c.allocStores[a]) == 0 || c.cellWritableElsewhere(a) {
		return nil
	}
	vc := &vcell{id: id, name: a.Comment, typ: Deref(a.Type()), alloc: a, stores: c.allocStores[a]}
	c.vcells[id] = vc
	return vc
}

func (c *fctx) fieldCell(fa *ssa.FieldAddr) *vcell {
	f, ok := FieldOf(fa)
	if !ok {
		return nil
	}
	path := Path(fa)
	if strings.Contains(strings.TrimPrefix(path, "?"), "?") {
		return nil
	}
	id := "f:" + path
	if vc, ok := c.vcells[id]; ok {
		return vc
	}
	if c.vcells == nil {
		c.vcells = map[string]*vcell{}
	}
	c.vcells[id] = nil
	st, ok2 := Deref(fa.X.Type()).Underlying().(*types.Struct)
	if !ok2 {
		return nil
	}
	ft := st.Field(fa.Field).Type()
	if _, _, isInt := intRange(ft); !isInt {
		return nil
	}
	if !c.storesToField[f] {
		return nil // never stored here: the plain field-path atom is used
	}
	vc := &vcell{id: id, name: path, typ: ft}
	Instrs(c.fn, func(i ssa.Instruction) {
		if s, ok := i.(*ssa.Store); ok {
			if fa2, ok := s.Addr.(*ssa.FieldAddr); ok && Path(fa2) == path {
				vc.stores = append(vc.stores, s)
			}
		}
	})
	if len(vc.stores) == 0 {
		// stores go through another path to (possibly) the same record: give up on this field
		return nil
	}
	c.vcells[id] = vc
	return vc
}

func (c *fctx) cellInfo(vc *vcell) *cellSSA {
	if vc == nil {
		return nil
	}
	if c.cells == nil {
		c.cells = map[string]*cellSSA{}
	}
	if ci, ok := c.cells[vc.id]; ok {
		return ci
	}
	ci := &cellSSA{in: map[*ssa.BasicBlock]cellDef{}, out: map[*ssa.BasicBlock]cellDef{}, psi: map[*ssa.BasicBlock]*psiNode{}}
	c.cells[vc.id] = ci
	lastStore := map[*ssa.BasicBlock]*ssa.Store{}
	for _, st := range vc.stores {
		b := st.Block()
		if cur := lastStore[b]; cur == nil || instrIndex(st) > instrIndex(cur) {
			lastStore[b] = st
		}
	}
	blocks := c.fn.Blocks
	known := map[*ssa.BasicBlock]bool{}
	if vc.alloc != nil {
		ci.in[blocks[0]] = cellDef{zero: true} // a fresh local cell is zero
	} else {
		ci.in[blocks[0]] = cellDef{entry: true}
	}
	known[blocks[0]] = true
	eq := func(x, y cellDef) bool { return x == y }
	for changed := true; changed; {
		changed = false
		for _, b := range blocks {
			if c.fn.Recover == b {
				continue
			}
			if b != blocks[0] {
				var defs []cellDef
				for _, p := range b.Preds {
					if d, ok := ci.out[p]; ok {
						defs = append(defs, d)
					}
				}
				if len(defs) == 0 {
					continue
				}
				var nd cellDef
				if ps, ok := ci.psi[b]; ok {
					nd = cellDef{psi: ps}
				} else {
					same := true
					for _, d := range defs[1:] {
						if !eq(d, defs[0]) {
							same = false
						}
					}
					if same {
						nd = defs[0]
					} else {
						ps := &psiNode{vc, b}
						ci.psi[b] = ps
						nd = cellDef{psi: ps}
					}
				}
				if old, ok := ci.in[b]; !ok || !eq(old, nd) {
					ci.in[b] = nd
					changed = true
				}
				known[b] = true
			}
			if !known[b] {
				continue
			}
			od := ci.in[b]
			if st := lastStore[b]; st != nil {
				od = cellDef{st: st}
			}
			if old, ok := ci.out[b]; !ok || !eq(old, od) {
				ci.out[b] = od
				changed = true
			}
		}
	}
	return ci
}

func instrIndex(ins ssa.Instruction) int {
	for i, x := range ins.Block().Instrs {
		if x == ins {
			return i
		}
	}
	return -1
}

// cellDefAt: the definition of the cell seen by a load.
func (c *fctx) cellDefAt(load *ssa.UnOp) (cellDef, *vcell, bool) {
	vc := c.cellOfLoad(load)
	ci := c.cellInfo(vc)
	if ci == nil {
		return cellDef{}, nil, false
	}
	b := load.Block()
	li := instrIndex(load)
	var best *ssa.Store
	for _, st := range vc.stores {
		if st.Block() == b {
			if si := instrIndex(st); si < li && (best == nil || si > instrIndex(best)) {
				best = st
			}
		}
	}
	if best != nil {
		return cellDef{st: best}, vc, true
	}
	d, ok := ci.in[b]
	return d, vc, ok
}

func (c *fctx) psiAtom(ps *psiNode) string {
	k := fmt.Sprintf("psi:%s@%d", ps.cell.id, ps.b.Index)
	if _, ok := c.intr[k]; !ok {
		c.intr[k] = nil
		c.disp[k] = ps.cell.name
		if lo, hi, ok := intRange(ps.cell.typ); ok {
			c.addRange(k, lo, hi, "type range of "+ps.cell.name)
		}
		c.psiSeen = append(c.psiSeen, ps)
		c.psiJoin(ps, k)
	}
	return k
}

func (c *fctx) dropJoin(k string) {
	var keep []Constraint
	for _, f := range c.intr[k] {
		if f.Why != "IV: join of incoming ranges" {
			keep = append(keep, f)
		}
	}
	c.intr[k] = keep
}

// phiJoin (re)computes the range of a non-IV phi as the join of its incoming ranges.
func (c *fctx) phiJoin(x *ssa.Phi, k string) {
	var jlo, jhi *big.Rat
	okLo, okHi := true, true
	for i, e := range x.Edges {
		pred := x.Block().Preds[i]
		el := c.lin(e)
		if _, self := el.T[k]; self {
			return // loop-carried: handled by the invariant candidates
		}
		elo, ehi := BoundsOf(c.edgeFacts(pred, x.Block(), el), el)
		if elo == nil {
			okLo = false
		} else if jlo == nil || elo.Cmp(jlo) < 0 {
			jlo = elo
		}
		if ehi == nil {
			okHi = false
		} else if jhi == nil || ehi.Cmp(jhi) > 0 {
			jhi = ehi
		}
	}
	if okLo && jlo != nil {
		c.intr[k] = append(c.intr[k], GE0(LinAtom(k).Sub(&Lin{T: map[string]*big.Rat{}, C: jlo}), "IV: join of incoming ranges"))
	}
	if okHi && jhi != nil {
		c.intr[k] = append(c.intr[k], GE0((&Lin{T: map[string]*big.Rat{}, C: jhi}).Sub(LinAtom(k)), "IV: join of incoming ranges"))
	}
}

// psiJoin (re)computes the range of a virtual phi at a plain join (not a loop head).
func (c *fctx) psiJoin(ps *psiNode, k string) {
	for _, pr := range ps.b.Preds {
		if ps.b.Dominates(pr) {
			return
		}
	}
	if len(ps.b.Preds) > 6 {
		return
	}
	var jlo, jhi *big.Rat
	okLo, okHi := true, true
	for _, pred := range ps.b.Preds {
		el := c.cellOutLin(ps.cell, pred)
		elo, ehi := BoundsOf(c.edgeFacts(pred, ps.b, el), el)
		if elo == nil {
			okLo = false
		} else if jlo == nil || elo.Cmp(jlo) < 0 {
			jlo = elo
		}
		if ehi == nil {
			okHi = false
		} else if jhi == nil || ehi.Cmp(jhi) > 0 {
			jhi = ehi
		}
	}
	if okLo && jlo != nil {
		c.intr[k] = append(c.intr[k], GE0(LinAtom(k).Sub(&Lin{T: map[string]*big.Rat{}, C: jlo}), "IV: join of incoming ranges"))
	}
	if okHi && jhi != nil {
		c.intr[k] = append(c.intr[k], GE0((&Lin{T: map[string]*big.Rat{}, C: jhi}).Sub(LinAtom(k)), "IV: join of incoming ranges"))
	}
}

// entryAtom: the value of a record field on entry to the function (field-path atom with its record invariants).
func (c *fctx) entryAtom(vc *vcell) *Lin {
	k := "m:" + vc.name
	if _, ok := c.intr[k]; !ok {
		c.intr[k] = nil
		c.disp[k] = vc.name + "@entry"
		if lo, hi, ok := intRange(vc.typ); ok {
			c.addRange(k, lo, hi, "type range of "+vc.name)
		}
		// record invariants hold on entry
		for _, st := range vc.stores {
			if fa, ok := st.Addr.(*ssa.FieldAddr); ok {
				if f, ok := FieldOf(fa); ok {
					if sib, ok := c.ba.Cfg.FieldLeLen[f]; ok {
						if sl := c.siblingLenAny(fa, sib); sl != nil {
							c.intr[k] = append(c.intr[k], GE0(LinAtom(k), "record invariant "+f+" >= 0 on entry"),
								GE0(sl.Sub(LinAtom(k)), "record invariant "+f+" <= len(."+sib+") on entry"))
						}
					}
				}
				break
			}
		}
	}
	return LinAtom(k)
}

func (c *fctx) defLin(d cellDef, vc *vcell) *Lin {
	switch {
	case d.st != nil:
		return c.lin(d.st.Val)
	case d.psi != nil:
		return LinAtom(c.psiAtom(d.psi))
	case d.entry:
		return c.entryAtom(vc)
	}
	return LinConst(0)
}

// cellOutLin: the value of the cell at the end of block b.
func (c *fctx) cellOutLin(vc *vcell, b *ssa.BasicBlock) *Lin {
	ci := c.cellInfo(vc)
	if ci == nil {
		return nil
	}
	if d, ok := ci.out[b]; ok {
		return c.defLin(d, vc)
	}
	if vc.alloc != nil {
		return LinConst(0)
	}
	return c.entryAtom(vc)
}

// psiAt lists the virtual phis placed at block b.
func (c *fctx) psiAt(b *ssa.BasicBlock) []*psiNode {
	// make sure every candidate cell is known
	Instrs(c.fn, func(i ssa.Instruction) {
		if ld, ok := i.(*ssa.UnOp); ok {
			c.cellOfLoad(ld)
		}
	})
	var ids []string
	for id, vc := range c.vcells {
		if vc != nil {
			ids = append(ids, id)
		}
	}
	sort.Strings(ids)
	var out []*psiNode
	for _, id := range ids {
		if ci := c.cellInfo(c.vcells[id]); ci != nil {
			if ps, ok := ci.psi[b]; ok {
				out = append(out, ps)
			}
		}
	}
	return out
}

// cellWritableElsewhere: may something other than this function's own Store
// instructions write the local cell? Closures that capture it may, unless they
// are only deferred and write it only on the recovered-panic path.
func (c *fctx) cellWritableElsewhere(a *ssa.Alloc) bool {
	if w, ok := c.cellEsc[a]; ok {
		return w
	}
	res := false
	for _, r := range *a.Referrers() {
		switch x := r.(type) {
		case *ssa.Store:
			if x.Addr != ssa.Value(a) {
				res = true
			}
		case *ssa.UnOp, *ssa.DebugRef:
		case *ssa.MakeClosure:
			fn, ok := x.Fn.(*ssa.Function)
			if !ok {
				res = true
				break
			}
			for i, b := range x.Bindings {
				if b != ssa.Value(a) || !closureWrites(fn, i) {
					continue
				}
				// writes allowed only in a deferred closure, under recover() != nil
				onlyDeferred := true
				for _, rr := range *x.Referrers() {
					if _, ok := rr.(*ssa.Defer); !ok {
						onlyDeferred = false
					}
				}
				if !onlyDeferred || !writesOnlyWhenRecovered(fn, i) {
					res = true
				}
			}
		default:
			res = true
		}
	}
	if c.cellEsc == nil {
		c.cellEsc = map[*ssa.Alloc]bool{}
	}
	c.cellEsc[a] = res
	return res
}

// writesOnlyWhenRecovered: every store to free variable fvIdx in fn is dominated
// by the true edge of a test "recover() != nil".
func writesOnlyWhenRecovered(fn *ssa.Function, fvIdx int) bool {
	if fvIdx >= len(fn.FreeVars) {
		return false
	}
	fv := fn.FreeVars[fvIdx]
	for _, r := range *fv.Referrers() {
		st, ok := r.(*ssa.Store)
		if !ok || st.Addr != ssa.Value(fv) {
			if _, isLoad := r.(*ssa.UnOp); isLoad {
				continue
			}
			return false
		}
		guarded := false
		for d := st.Block(); d != nil; d = d.Idom() {
			id := d.Idom()
			if id == nil {
				break
			}
			iff, ok := id.Instrs[len(id.Instrs)-1].(*ssa.If)
			if !ok || id.Succs[0] != d || len(d.Preds) != 1 {
				continue
			}
			if bo, ok := iff.Cond.(*ssa.BinOp); ok && bo.Op == token.NEQ {
				if call, ok := bo.X.(*ssa.Call); ok {
					if bi, ok := call.Call.Value.(*ssa.Builtin); ok && bi.Name() == "recover" {
						guarded = true
					}
				}
			}
		}
		if !guarded {
			return false
		}
	}
	return true
}

// reachingStore: the unique store to local cell a whose value every path to the load carries.
func (c *fctx) reachingStore(load *ssa.UnOp, a *ssa.Alloc) ssa.Value {
	if c.cellWritableElsewhere(a) {
		return nil
	}
	sts := c.allocStores[a]
	if len(sts) == 0 {
		return nil
	}
	lb := load.Block()
	pos := func(b *ssa.BasicBlock, in ssa.Instruction) int {
		for i, x := range b.Instrs {
			if x == in {
				return i
			}
		}
		return -1
	}
	lpos := pos(lb, load)
	// last store before the load inside its block
	var inBlock *ssa.Store
	for _, st := range sts {
		if st.Block() == lb && pos(lb, st) < lpos {
			if inBlock == nil || pos(lb, st) > pos(lb, inBlock) {
				inBlock = st
			}
		}
	}
	if inBlock != nil {
		return inBlock.Val
	}
	// otherwise: a store S in a block that dominates the load, such that no other
	// store lies on a path from S to the load
	var best *ssa.Store
	for _, st := range sts {
		sb := st.Block()
		if sb == lb || !sb.Dominates(lb) {
			continue
		}
		// must be the last store in its block
		last := true
		for _, o := range sts {
			if o != st && o.Block() == sb && pos(sb, o) > pos(sb, st) {
				last = false
			}
		}
		if !last {
			continue
		}
		okS := true
		for _, o := range sts {
			if o == st {
				continue
			}
			ob := o.Block()
			if ob == sb {
				continue // earlier in the same block
			}
			if ob == lb {
				// store after the load in the load's block: matters only if lb is in a cycle avoiding sb
				if reachAvoid2(lb, lb, sb) {
					okS = false
				}
				continue
			}
			// is ob on a path sb -> lb (not passing sb again)?
			if blockReaches(sb, ob, sb) && reachAvoid(ob, lb, sb) {
				okS = false
			}
		}
		if okS {
			if best != nil {
				return nil
			}
			best = st
		}
	}
	if best != nil {
		return best.Val
	}
	return nil
}

// blockReaches: can 'to' be reached from a successor of 'from' without passing 'avoid' (unless avoid==from start)?
func blockReaches(from, to, avoid *ssa.BasicBlock) bool {
	for _, s := range from.Succs {
		if s == to || reachAvoid(s, to, avoid) {
			return true
		}
	}
	return false
}

// reachAvoid2: is 'to' reachable from a successor of 'from' without passing 'avoid'?
func reachAvoid2(from, to, avoid *ssa.BasicBlock) bool {
	for _, s := range from.Succs {
		if s == avoid {
			continue
		}
		if s == to || reachAvoid(s, to, avoid) {
			return true
		}
	}
	return false
}

// ---- taint -------------------------------------------------------------------------

const (
	tV uint8 = 1 // value / content
	tL uint8 = 2 // length
)

func isSliceLike(t types.Type) bool {
	switch u := t.Underlying().(type) {
	case *types.Slice:
		return true
	case *types.Basic:
		return u.Info()&types.IsString != 0
	}
	return false
}

func srcBits(t types.Type) uint8 {
	if isSliceLike(t) {
		return tV | tL
	}
	return tV
}

func (c *fctx) tv(v ssa.Value) bool { return v != nil && c.taint[v]&tV != 0 }
func (c *fctx) tl(v ssa.Value) bool { return v != nil && c.taint[v]&tL != 0 }

func (c *fctx) propagateTaint() {
	for changed := true; changed; {
		changed = false
		mark := func(v ssa.Value, bits uint8) {
			if v != nil && bits != 0 && c.taint[v]|bits != c.taint[v] {
				c.taint[v] |= bits
				changed = true
			}
		}
		Instrs(c.fn, func(i ssa.Instruction) {
			v, isVal := i.(ssa.Value)
			if !isVal {
				if st, ok := i.(*ssa.Store); ok && c.taint[st.Val] != 0 {
					switch a := st.Addr.(type) {
					case *ssa.Alloc:
						mark(a, c.taint[st.Val])
					case *ssa.IndexAddr:
						// storing attacker data into a buffer taints its content, not its length
						if c.tv(st.Val) {
							mark(a.X, tV)
						}
					}
				}
				return
			}
			switch x := i.(type) {
			case *ssa.UnOp:
				mark(v, c.taint[x.X])
				if x.Op == token.MUL && c.tv(x.X) && isSliceLike(v.Type()) {
					mark(v, tV|tL) // an element of attacker-filled nested data: its length is attacker-chosen too
				}
				if x.Op == token.MUL {
					if fa, ok := x.X.(*ssa.FieldAddr); ok {
						if f, ok := FieldOf(fa); ok && c.ba.Cfg.TaintedFields[f] {
							mark(v, srcBits(v.Type()))
						}
					}
				}
			case *ssa.BinOp:
				switch x.Op {
				case token.EQL, token.NEQ, token.LSS, token.LEQ, token.GTR, token.GEQ:
				default:
					if c.tv(x.X) || c.tv(x.Y) {
						mark(v, tV)
					}
				}
			case *ssa.Convert:
				mark(v, c.taint[x.X])
			case *ssa.ChangeType:
				mark(v, c.taint[x.X])
			case *ssa.Phi:
				for _, e := range x.Edges {
					mark(v, c.taint[e])
				}
			case *ssa.Slice:
				mark(v, c.taint[x.X])
				if c.tv(x.Low) || c.tv(x.High) {
					mark(v, tL)
				}
			case *ssa.Index:
				if c.tv(x.X) {
					mark(v, tV)
					if isSliceLike(v.Type()) {
						mark(v, tL)
					}
				}
			case *ssa.IndexAddr:
				if c.tv(x.X) {
					mark(v, tV)
				}
			case *ssa.Field:
				if f, ok := FieldOf(x); ok && c.ba.Cfg.TaintedFields[f] {
					mark(v, srcBits(v.Type()))
				}
			case *ssa.Extract:
				if b := c.taint[x.Tuple]; b != 0 {
					if isSliceLike(v.Type()) {
						mark(v, tV|tL)
					} else {
						mark(v, tV)
					}
				}
			case *ssa.Lookup:
				if c.tv(x.X) {
					mark(v, tV)
				}
			case *ssa.MakeSlice:
				if c.tv(x.Len) {
					mark(v, tL)
				}
			case *ssa.Call:
				name := CallName(x)
				if c.ba.Cfg.CleanResult[name] {
					return
				}
				if strings.HasPrefix(name, "builtin.") {
					switch strings.TrimPrefix(name, "builtin.") {
					case "len", "cap":
						if c.tl(x.Call.Args[0]) {
							mark(v, tV)
						}
					case "append":
						mark(v, c.taint[x.Call.Args[0]])
						for _, a := range x.Call.Args[1:] {
							if c.tv(a) {
								mark(v, tV)
							}
							if c.tl(a) {
								mark(v, tL)
							}
						}
					case "min", "max":
						for _, a := range x.Call.Args {
							if c.tv(a) {
								mark(v, tV)
							}
						}
					}
					return
				}
				any := false
				for _, a := range x.Call.Args {
					if c.taint[a] != 0 {
						any = true
					}
				}
				// accessor methods handing out a tainted field of their (untainted) receiver
				if !any && len(c.ba.Cfg.TaintedFields) > 0 {
					if callee := StaticCallee(x); callee != nil && core.InModule(callee) && c.ba.returnsTainted(callee) {
						any = true
					}
				}
				if x.Call.IsInvoke() && c.taint[x.Call.Value] != 0 {
					any = true
				}
				if any {
					if tup, ok := x.Type().(*types.Tuple); ok {
						if tup.Len() > 0 {
							mark(v, tV)
						}
						return
					}
					mark(v, srcBits(x.Type()))
				}
			case *ssa.MakeInterface:
				mark(v, c.taint[x.X])
			case *ssa.TypeAssert:
				mark(v, c.taint[x.X])
			}
		})
	}
}

// ---- atoms and linearisation ----------------------------------------------------------

func (c *fctx) atomKey(v ssa.Value) string {
	v = c.canon(v)
	switch x := v.(type) {
	case *ssa.Parameter:
		c.disp["p:"+x.Name()] = x.Name()
		return "p:" + x.Name()
	case *ssa.FreeVar:
		return "fv:" + x.Name()
	case *ssa.UnOp:
		if x.Op == token.MUL {
			// load of a field path with no store to that field in this function: stable
			if fa, ok := x.X.(*ssa.FieldAddr); ok {
				if f, ok := FieldOf(fa); ok && (!c.storesToField[f] || c.storesSettled(f, x)) {
					p := Path(fa)
					// the root may be an SSA register (immutable pointer value); memory steps must be named
					if !strings.Contains(strings.TrimPrefix(p, "?"), "?") {
						return "m:" + p
					}
				}
			}
			if fv, ok := x.X.(*ssa.FreeVar); ok {
				wr := false
				for _, r := range *fv.Referrers() {
					if st, ok := r.(*ssa.Store); ok && st.Addr == ssa.Value(fv) {
						wr = true
					}
				}
				if !wr {
					return "fv:" + fv.Name()
				}
			}
		}
	}
	// pure expressions get structural keys: go/ssa performs no CSE, and two
	// syntactically separate "offs+6" denote the same (immutable) value
	if sk := c.structKey(v, 0); sk != "" {
		if _, ok := c.disp[sk]; !ok {
			c.disp[sk] = c.describe(v)
		}
		return sk
	}
	k := "v:" + v.Name()
	if _, ok := c.disp[k]; !ok {
		c.disp[k] = c.describe(v)
	}
	return k
}

// storesSettled: every store to field f in this function has executed, once and
// for all, before the load (its block dominates the load and cannot be reached again).
func (c *fctx) storesSettled(f string, load *ssa.UnOp) bool {
	lb := load.Block()
	ok := true
	Instrs(c.fn, func(i ssa.Instruction) {
		st, isSt := i.(*ssa.Store)
		if !isSt || !ok {
			return
		}
		fa, isFA := st.Addr.(*ssa.FieldAddr)
		if !isFA {
			return
		}
		if g, _ := FieldOf(fa); g != f {
			return
		}
		sb := st.Block()
		if sb == lb {
			if instrIndex(st) > instrIndex(load) || reachAvoid2(lb, lb, nil) {
				ok = false
			}
			return
		}
		if !sb.Dominates(lb) || reachAvoid2(lb, sb, nil) {
			ok = false
		}
	})
	return ok
}

func (c *fctx) structKey(v ssa.Value, depth int) string {
	if depth > 6 {
		return ""
	}
	opnd := func(o ssa.Value) string {
		o = c.canon(o)
		if cst, ok := o.(*ssa.Const); ok {
			if cst.Value == nil {
				return "nil"
			}
			return cst.Value.ExactString()
		}
		if depth+1 > 6 {
			return "v:" + o.Name()
		}
		return c.atomKeyDepth(o, depth+1)
	}
	switch x := v.(type) {
	case *ssa.BinOp:
		return "e:(" + opnd(x.X) + " " + x.Op.String() + " " + opnd(x.Y) + ")"
	case *ssa.Convert:
		if _, _, ok := intRange(x.Type()); ok {
			return "e:" + x.Type().String() + "(" + opnd(x.X) + ")"
		}
	}
	return ""
}

func (c *fctx) atomKeyDepth(v ssa.Value, depth int) string {
	v = c.canon(v)
	switch v.(type) {
	case *ssa.BinOp, *ssa.Convert:
		if sk := c.structKey(v, depth); sk != "" {
			return sk
		}
		return "v:" + v.Name()
	}
	return c.atomKey(v)
}

func (c *fctx) describe(v ssa.Value) string {
	switch x := v.(type) {
	case *ssa.Extract:
		if call, ok := x.Tuple.(*ssa.Call); ok {
			return fmt.Sprintf("%s()#%d", shortName(CallName(call)), x.Index)
		}
	case *ssa.Call:
		return shortName(CallName(x)) + "()"
	case *ssa.Phi:
		if x.Comment != "" {
			return x.Comment
		}
	case *ssa.Alloc:
		return x.Comment
	case *ssa.UnOp:
		if x.Op == token.MUL {
			return "*" + Path(x.X)
		}
	case *ssa.BinOp:
		return fmt.Sprintf("(%s %s %s)", c.describe(x.X), x.Op, c.describe(x.Y))
	case *ssa.Const:
		return x.Value.String()
	case *ssa.Convert:
		return fmt.Sprintf("%s(%s)", x.Type(), c.describe(x.X))
	case *ssa.Parameter:
		return x.Name()
	case *ssa.Index:
		return Path(x)
	}
	return v.Name()
}

func shortName(s string) string {
	if i := strings.LastIndex(s, "/"); i >= 0 {
		return s[i+1:]
	}
	return s
}

// intRange returns the value range of a basic integer type (64-bit platform).
func intRange(t types.Type) (lo, hi *big.Int, ok bool) {
	b, isb := t.Underlying().(*types.Basic)
	if !isb || b.Info()&types.IsInteger == 0 {
		return nil, nil, false
	}
	var bits uint
	switch b.Kind() {
	case types.Int8, types.Uint8:
		bits = 8
	case types.Int16, types.Uint16:
		bits = 16
	case types.Int32, types.Uint32:
		bits = 32
	case types.Int, types.Int64, types.Uint, types.Uint64, types.Uintptr, types.UntypedInt:
		bits = 64
	default:
		return nil, nil, false
	}
	one := big.NewInt(1)
	if b.Info()&types.IsUnsigned != 0 {
		hi = new(big.Int).Lsh(one, bits)
		hi.Sub(hi, one)
		return new(big.Int), hi, true
	}
	hi = new(big.Int).Lsh(one, bits-1)
	lo = new(big.Int).Neg(hi)
	hi = new(big.Int).Sub(hi, one)
	return lo, hi, true
}

func (c *fctx) addRange(atom string, lo, hi *big.Int, why string) {
	if lo != nil {
		c.intr[atom] = append(c.intr[atom], GE0(LinAtom(atom).Sub(LinBig(lo)), why))
	}
	if hi != nil {
		c.intr[atom] = append(c.intr[atom], GE0(LinBig(hi).Sub(LinAtom(atom)), why))
	}
}

// opaque returns the atom for v with its type-range facts registered.
func (c *fctx) opaque(v ssa.Value) *Lin {
	k := c.atomKey(v)
	if _, ok := c.intr[k]; !ok {
		c.intr[k] = nil
		if lo, hi, ok := intRange(v.Type()); ok {
			c.addRange(k, lo, hi, "type range of "+c.dispOf(k))
		}
		if f, ok := loadedField(v); ok {
			if mx, ok := c.ba.Cfg.FieldMax[f]; ok {
				c.intr[k] = append(c.intr[k], GE0(LinConst(mx).Sub(LinAtom(k)), "assumed bound of "+f))
			}
			if sib, ok := c.ba.Cfg.FieldLeLen[f]; ok {
				if ld, ok := v.(*ssa.UnOp); ok {
					if fa, ok := ld.X.(*ssa.FieldAddr); ok {
						if sl := c.siblingLen(fa, sib, ld); sl != nil {
							c.intr[k] = append(c.intr[k], GE0(LinAtom(k), "record invariant "+f+" >= 0"),
								GE0(sl.Sub(LinAtom(k)), "record invariant "+f+" <= len(."+sib+")"))
						}
					}
				}
			}
		}
	}
	return LinAtom(k)
}

// siblingLen: len of field sib of the same record as fa, as seen at instruction at.
func (c *fctx) siblingLen(fa *ssa.FieldAddr, sib string, at ssa.Instruction) *Lin {
	st, ok := Deref(fa.X.Type()).Underlying().(*types.Struct)
	if !ok {
		return nil
	}
	base := Path(fa.X)
	// a load of base.sib in this function with the same base path
	var found ssa.Value
	Instrs(c.fn, func(i ssa.Instruction) {
		if found != nil {
			return
		}
		if ld, ok := i.(*ssa.UnOp); ok && ld.Op == token.MUL {
			if fa2, ok := ld.X.(*ssa.FieldAddr); ok && Path(fa2.X) == base {
				if st2, ok := Deref(fa2.X.Type()).Underlying().(*types.Struct); ok && st2 == st && st2.Field(fa2.Field).Name() == sib {
					found = ld
				}
			}
		}
	})
	if found == nil {
		return nil
	}
	return c.lenOf(found)
}

func (c *fctx) dispOf(k string) string {
	if d, ok := c.disp[k]; ok && d != "" {
		return d
	}
	return strings.TrimPrefix(strings.TrimPrefix(k, "m:"), "p:")
}

// loadedField: v is a load of (or a Field of) struct field T.F
func loadedField(v ssa.Value) (string, bool) {
	switch x := v.(type) {
	case *ssa.UnOp:
		if x.Op == token.MUL {
			if fa, ok := x.X.(*ssa.FieldAddr); ok {
				return FieldOf(fa)
			}
		}
	case *ssa.Field:
		return FieldOf(x)
	}
	return "", false
}

// lenOf returns the linear form of len(v) for a slice/string/array value.
func (c *fctx) lenOf(v ssa.Value) *Lin {
	v = c.canon(v)
	switch t := Deref(v.Type()).Underlying().(type) {
	case *types.Array:
		return LinConst(t.Len())
	}
	switch x := v.(type) {
	case *ssa.Const:
		if x.Value != nil && x.Value.Kind() == constant.String {
			return LinConst(int64(len(constant.StringVal(x.Value))))
		}
		return LinConst(0) // nil slice
	case *ssa.Slice:
		// len(x[lo:hi]) = hi - lo, valid once the slice expression has executed
		var lo, hi *Lin
		if x.Low != nil {
			lo = c.lin(x.Low)
		} else {
			lo = LinConst(0)
		}
		if x.High != nil {
			hi = c.lin(x.High)
		} else {
			hi = c.lenOf(x.X)
		}
		if lo != nil && hi != nil {
			return hi.Sub(lo)
		}
	case *ssa.MakeSlice:
		if l := c.lin(x.Len); l != nil {
			return l
		}
	case *ssa.Convert:
		// []byte(string) / string([]byte)
		if _, ok := x.X.Type().Underlying().(*types.Basic); ok {
			return c.lenOf(x.X)
		}
		if _, ok := x.X.Type().Underlying().(*types.Slice); ok {
			return c.lenOf(x.X)
		}
	}
	k := "len:" + c.atomKey(v)
	if _, ok := c.intr[k]; !ok {
		c.disp[k] = "len(" + c.dispOf(c.atomKey(v)) + ")"
		c.intr[k] = nil
		c.addRange(k, new(big.Int), maxLen, "0 <= len <= 2^40")
		if f, ok := loadedField(v); ok {
			if n, ok := c.ba.Cfg.FieldMinLen[f]; ok {
				c.intr[k] = append(c.intr[k], GE0(LinAtom(k).AddConst(-n), "record invariant len("+f+") >= "+fmt.Sprint(n)))
			}
		}
	}
	return LinAtom(k)
}

// lin linearises an integer value; never nil (falls back to an opaque atom).
func (c *fctx) lin(v ssa.Value) *Lin {
	v = c.canon(v)
	if l, ok := c.linMemo[v]; ok {
		return l
	}
	if c.inProgress[v] {
		if os.Getenv("GCV_DEBUG_FN") == core.FuncName(c.fn) && os.Getenv("GCV_DEBUG_FITS") != "" {
			fmt.Fprintf(os.Stderr, "cycle on %s (%s)\n", v.Name(), c.describe(v))
			if os.Getenv("GCV_DEBUG_STACK") == v.Name() {
				debug.PrintStack()
				os.Setenv("GCV_DEBUG_STACK", "")
			}
		}
		c.cycleHits++
		return c.opaque(v)
	}
	c.inProgress[v] = true
	before := c.cycleHits
	l := c.lin1(v)
	delete(c.inProgress, v)
	if c.cycleHits == before {
		c.linMemo[v] = l // results obtained through a recursion fallback are not cached
	}
	return l
}

func constBig(x *ssa.Const) *big.Int {
	if x.Value == nil {
		return nil
	}
	v := constant.ToInt(x.Value)
	if v.Kind() != constant.Int {
		return nil
	}
	b, ok := new(big.Int).SetString(v.ExactString(), 10)
	if !ok {
		return nil
	}
	return b
}

func (c *fctx) lin1(v ssa.Value) *Lin {
	if ld, ok := v.(*ssa.UnOp); ok && ld.Op == token.MUL {
		if d, vc, ok := c.cellDefAt(ld); ok {
			return c.defLin(d, vc)
		}
	}
	switch x := v.(type) {
	case *ssa.Const:
		if b := constBig(x); b != nil {
			return LinBig(b)
		}
	case *ssa.BinOp:
		return c.linBinOp(x)
	case *ssa.Convert:
		slo, shi, ok1 := intRange(x.X.Type())
		dlo, dhi, ok2 := intRange(x.Type())
		if ok1 && ok2 {
			inner := c.lin(x.X)
			if slo.Cmp(dlo) >= 0 && shi.Cmp(dhi) <= 0 {
				return inner
			}
			// value preserved if provably within the destination range
			okc := false
			c.atInstr(x, func() {
				okc = c.proveAt(x.Block(), inner.Sub(LinBig(dlo))) && c.proveAt(x.Block(), LinBig(dhi).Sub(inner))
			})
			if okc {
				return inner
			}
		}
	case *ssa.Call:
		if b, ok := x.Call.Value.(*ssa.Builtin); ok {
			switch b.Name() {
			case "len":
				return c.lenOf(x.Call.Args[0])
			case "cap":
				l := c.opaque(x)
				k := c.atomKey(x)
				c.intr[k] = append(c.intr[k], GE0(l.Sub(c.lenOf(x.Call.Args[0])), "cap >= len"))
				c.addRange(k, nil, maxLen, "cap <= 2^40")
				return l
			case "min", "max":
				l := c.opaque(x)
				k := c.atomKey(x)
				for _, a := range x.Call.Args {
					if b.Name() == "min" {
						c.intr[k] = append(c.intr[k], GE0(c.lin(a).Sub(l), "min(..) <= arg"))
					} else {
						c.intr[k] = append(c.intr[k], GE0(l.Sub(c.lin(a)), "max(..) >= arg"))
					}
				}
				return l
			}
		}
		l := c.opaque(x)
		c.callPost(x, func(i int) *Lin { return l })
		c.applyRetSummary(x, 0, c.atomKey(x))
		return l
	case *ssa.Extract:
		l := c.opaque(x)
		if call, ok := x.Tuple.(*ssa.Call); ok {
			c.callPost(call, nil)
			c.applyRetSummary(call, x.Index, c.atomKey(x))
		}
		return l
	case *ssa.Phi:
		l := c.opaque(x)
		k := c.atomKey(x)
		// join of constant edges gives a range
		var lo, hi *big.Int
		all := true
		for _, e := range x.Edges {
			ce, ok := c.canon(e).(*ssa.Const)
			if !ok {
				all = false
				break
			}
			b := constBig(ce)
			if b == nil {
				all = false
				break
			}
			if lo == nil || b.Cmp(lo) < 0 {
				lo = b
			}
			if hi == nil || b.Cmp(hi) > 0 {
				hi = b
			}
		}
		if all && lo != nil {
			c.addRange(k, lo, hi, "phi of constants")
			return l
		}
		if _, isIV := c.ivs[x]; !isIV && len(x.Edges) <= 6 {
			seenPhi := false
			for _, o := range c.phiSeen {
				if o == x {
					seenPhi = true
				}
			}
			if !seenPhi {
				c.phiSeen = append(c.phiSeen, x)
			}
			loopHead := false
			for _, pr := range x.Block().Preds {
				if x.Block().Dominates(pr) {
					loopHead = true
				}
			}
			if !loopHead && !seenPhi {
				c.phiJoin(x, k) // loop-carried phis get their join when the invariants are (re)registered
			}
		}
		return l
	}
	return c.opaque(v)
}

// callPost registers the post-condition facts of a summarised callee on the result atoms.
func (c *fctx) callPost(call *ssa.Call, single func(int) *Lin) {
	name := CallName(call)
	pc, ok := c.ba.Cfg.Post[name]
	if !ok {
		return
	}
	key := "post:" + call.Name()
	if _, done := c.intr[key]; done {
		return
	}
	c.intr[key] = nil
	// find Extracts of this call
	res := func(i int) *Lin {
		if i < 0 {
			return c.opaque(call)
		}
		for _, r := range *call.Referrers() {
			if ex, ok := r.(*ssa.Extract); ok && ex.Index == i {
				return c.opaque(ex)
			}
		}
		return nil
	}
	args := call.Call.Args
	off := 0
	if call.Call.IsInvoke() {
		off = 0
	} else if f := call.Call.StaticCallee(); f != nil && f.Signature.Recv() != nil {
		off = 1
	}
	argLen := func(i int) *Lin {
		if i+off < len(args) {
			return c.lenOf(args[i+off])
		}
		return nil
	}
	arg := func(i int) *Lin {
		if i+off < len(args) {
			return c.lin(args[i+off])
		}
		return nil
	}
	facts := pc(res, argLen, arg)
	// attach to every result atom
	for _, f := range facts {
		for a := range f.L.T {
			if strings.HasPrefix(a, "v:") || strings.HasPrefix(a, "e:") {
				c.intr[a] = append(c.intr[a], f)
			}
		}
	}
}

// retSummary: constant bounds of each integer result of a module function and
// whether result <= len(param i), derived from the callee's own return sites.
type retSummary struct {
	lo, hi []*big.Rat
	leLen  [][]bool
	cases  []retCase // one per return site
}

type retCase struct {
	lo, hi []*big.Rat
	leLen  [][]bool
	nn     []int8 // per result: 0 = the nil constant, 1 = certainly not nil, -1 = unknown / not a reference
}

// nilness of a returned reference value: constant nil, or a freshly made value
func nilnessOf(v ssa.Value) int8 {
	switch x := v.(type) {
	case *ssa.Const:
		if x.Value == nil {
			switch x.Type().Underlying().(type) {
			case *types.Interface, *types.Pointer, *types.Slice, *types.Map:
				return 0
			}
		}
	case *ssa.MakeInterface, *ssa.Alloc, *ssa.MakeSlice, *ssa.MakeMap:
		return 1
	case *ssa.Call:
		switch CallName(x) {
		case "errors.New", "fmt.Errorf":
			return 1
		}
	}
	return -1
}

func (ba *BoundsAnalysis) retSum(fn *ssa.Function) *retSummary {
	if ba.rets == nil {
		ba.rets = map[*ssa.Function]*retSummary{}
	}
	if s, ok := ba.rets[fn]; ok {
		return s
	}
	ba.rets[fn] = nil // recursion guard
	nres := fn.Signature.Results().Len()
	if fn.Blocks == nil || nres == 0 {
		return nil
	}
	anyInt := false
	for j := 0; j < nres; j++ {
		if _, _, ok := intRange(fn.Signature.Results().At(j).Type()); ok {
			anyInt = true
		}
	}
	if !anyInt {
		return nil
	}
	c := &fctx{ba: ba, fn: fn, taint: map[ssa.Value]uint8{}, linMemo: map[ssa.Value]*Lin{}, intr: map[string][]Constraint{},
		disp: map[string]string{}, ivs: map[*ssa.Phi]*ivInfo{}, branch: map[*ssa.BasicBlock][]Constraint{},
		storesToField: map[string]bool{}, allocStores: map[*ssa.Alloc][]*ssa.Store{}, inProgress: map[ssa.Value]bool{},
		paramIdx: map[*ssa.Parameter]int{}, sum: &fsum{}}
	c.prepass()
	c.findIVs()
	s := &retSummary{lo: make([]*big.Rat, nres), hi: make([]*big.Rat, nres), leLen: make([][]bool, nres)}
	first := true
	for _, b := range fn.Blocks {
		if fn.Recover == b {
			continue
		}
		ret, ok := b.Instrs[len(b.Instrs)-1].(*ssa.Return)
		if !ok || len(ret.Results) != nres {
			continue
		}
		rc := retCase{lo: make([]*big.Rat, nres), hi: make([]*big.Rat, nres), leLen: make([][]bool, nres), nn: make([]int8, nres)}
		c.at, c.atEnd = ret, nil
		for j, rv := range ret.Results {
			rc.nn[j] = -1
			if _, _, ok := intRange(rv.Type()); !ok {
				rc.nn[j] = nilnessOf(rv)
				continue
			}
			l := c.lin(rv)
			lo, hi := BoundsOf(c.gather(b, l), l)
			if os.Getenv("GCV_DEBUG_FN") == core.FuncName(fn) {
				fmt.Fprintf(os.Stderr, "return at block %d: %s in [%v,%v]\n", b.Index, c.show(l), lo, hi)
				for _, f := range c.gather(b, l) {
					fmt.Fprintf(os.Stderr, "      %s >= 0 [%s]\n", c.show(f.L), f.Why)
				}
			}
			rc.lo[j], rc.hi[j] = lo, hi
			rc.leLen[j] = make([]bool, len(fn.Params))
			for i, p := range fn.Params {
				if isSliceLike(p.Type()) {
					rc.leLen[j][i] = c.proveAt(b, c.lenOf(p).Sub(l))
				}
			}
			if first {
				s.lo[j], s.hi[j] = lo, hi
				s.leLen[j] = make([]bool, len(fn.Params))
				for i, p := range fn.Params {
					if isSliceLike(p.Type()) {
						s.leLen[j][i] = c.proveAt(b, c.lenOf(p).Sub(l))
					}
				}
			} else {
				if lo == nil || (s.lo[j] != nil && lo.Cmp(s.lo[j]) < 0) {
					s.lo[j] = lo
				}
				if hi == nil || (s.hi[j] != nil && hi.Cmp(s.hi[j]) > 0) {
					s.hi[j] = hi
				}
				for i, p := range fn.Params {
					if s.leLen[j] != nil && s.leLen[j][i] && isSliceLike(p.Type()) {
						s.leLen[j][i] = c.proveAt(b, c.lenOf(p).Sub(l))
					}
				}
			}
		}
		first = false
		s.cases = append(s.cases, rc)
	}
	if first {
		return nil
	}
	ba.rets[fn] = s
	if os.Getenv("GCV_DEBUG") != "" {
		fmt.Fprintf(os.Stderr, "retsum %s:", core.FuncName(fn))
		for j := range s.lo {
			fmt.Fprintf(os.Stderr, " r%d[%v,%v] leLen=%v", j, s.lo[j], s.hi[j], s.leLen[j])
		}
		for ci, rc := range s.cases {
			fmt.Fprintf(os.Stderr, "\n   case %d:", ci)
			for j := range rc.lo {
				fmt.Fprintf(os.Stderr, " r%d[%v,%v] %v", j, rc.lo[j], rc.hi[j], rc.leLen[j])
			}
		}
		fmt.Fprintln(os.Stderr)
	}
	return s
}

func (c *fctx) applyRetSummary(call *ssa.Call, idx int, atom string) {
	cal := StaticCallee(call)
	if cal == nil || !core.InModule(cal) {
		return
	}
	key := fmt.Sprintf("ret:%s#%d", call.Name(), idx)
	if _, done := c.intr[key]; done {
		return
	}
	c.intr[key] = nil
	s := c.ba.retSum(cal)
	if s == nil || idx >= len(s.lo) {
		return
	}
	nm := shortName(core.FuncName(cal))
	if s.lo[idx] != nil {
		c.intr[atom] = append(c.intr[atom], GE0(LinAtom(atom).Sub(&Lin{T: map[string]*big.Rat{}, C: s.lo[idx]}), "result range of "+nm))
	}
	if s.hi[idx] != nil {
		c.intr[atom] = append(c.intr[atom], GE0((&Lin{T: map[string]*big.Rat{}, C: s.hi[idx]}).Sub(LinAtom(atom)), "result range of "+nm))
	}
	args := call.Call.Args
	for i, le := range s.leLen[idx] {
		if le && i < len(args) {
			c.intr[atom] = append(c.intr[atom], GE0(c.lenOf(args[i]).Sub(LinAtom(atom)), "result of "+nm+" <= len(arg)"))
		}
	}
	// per-return-site cases (used as a disjunction)
	if c.disj == nil {
		c.disj = map[string][][]Constraint{}
		c.atomCall = map[string]string{}
	}
	c.atomCall[atom] = call.Name()
	if _, ok := c.disj[call.Name()]; !ok && len(s.cases) > 1 && len(s.cases) <= 8 {
		resAtom := func(j int) string {
			if nres := len(s.lo); nres == 1 {
				return c.atomKey(call)
			}
			for _, r := range *call.Referrers() {
				if ex, ok := r.(*ssa.Extract); ok && ex.Index == j {
					return c.atomKey(ex)
				}
			}
			return ""
		}
		var cases [][]Constraint
		for ci, rc := range s.cases {
			var cs []Constraint
			why := fmt.Sprintf("return site %d of %s", ci+1, nm)
			for j := range rc.lo {
				if j < len(rc.nn) && rc.nn[j] >= 0 {
					// nil-ness of a reference result at this return site, as a 0/1 pseudo-variable
					for _, r := range *call.Referrers() {
						if ex, ok := r.(*ssa.Extract); ok && ex.Index == j {
							na := "nn:" + ex.Name()
							c.atomCall[na] = call.Name()
							k := int64(rc.nn[j])
							cs = append(cs, GE0(LinAtom(na).AddConst(-k), why), GE0(LinAtom(na).Scale(-1).AddConst(k), why))
						}
					}
				}
				a := resAtom(j)
				if a == "" {
					continue
				}
				if rc.lo[j] != nil {
					cs = append(cs, GE0(LinAtom(a).Sub(&Lin{T: map[string]*big.Rat{}, C: rc.lo[j]}), why))
				}
				if rc.hi[j] != nil {
					cs = append(cs, GE0((&Lin{T: map[string]*big.Rat{}, C: rc.hi[j]}).Sub(LinAtom(a)), why))
				}
				for i, le := range rc.leLen[j] {
					if le && i < len(args) {
						cs = append(cs, GE0(c.lenOf(args[i]).Sub(LinAtom(a)), why))
					}
				}
			}
			cases = append(cases, cs)
		}
		c.disj[call.Name()] = cases
	}
}

// fits reports whether lin (mathematical value) provably lies within type t at block b.
func (c *fctx) fits(b *ssa.BasicBlock, l *Lin, t types.Type) bool {
	lo, hi, ok := intRange(t)
	if !ok {
		return false
	}
	if l.IsConst() {
		if !l.C.IsInt() {
			return false
		}
		n := l.C.Num()
		return n.Cmp(lo) >= 0 && n.Cmp(hi) <= 0
	}
	return c.proveAt(b, l.Sub(LinBig(lo))) && c.proveAt(b, LinBig(hi).Sub(l))
}

func (c *fctx) linBinOp(x *ssa.BinOp) *Lin {
	oa, oe := c.at, c.atEnd
	c.at, c.atEnd = x, nil
	defer func() { c.at, c.atEnd = oa, oe }()
	_, _, isInt := intRange(x.Type())
	if !isInt {
		return c.opaque(x)
	}
	lx, ly := c.lin(x.X), c.lin(x.Y)
	var r *Lin
	switch x.Op {
	case token.ADD:
		r = lx.Add(ly)
	case token.SUB:
		r = lx.Sub(ly)
	case token.MUL:
		if ly.IsConst() && ly.C.IsInt() {
			r = NewLin().AddScaled(lx, ly.C)
		} else if lx.IsConst() && lx.C.IsInt() {
			r = NewLin().AddScaled(ly, lx.C)
		}
	case token.SHL:
		if ly.IsConst() && ly.C.IsInt() && ly.C.Num().IsInt64() && ly.C.Num().Int64() >= 0 && ly.C.Num().Int64() < 63 {
			k := new(big.Rat).SetInt(new(big.Int).Lsh(big.NewInt(1), uint(ly.C.Num().Int64())))
			r = NewLin().AddScaled(lx, k)
		}
	case token.AND, token.REM, token.QUO, token.SHR, token.OR, token.XOR, token.AND_NOT:
		l := c.opaque(x)
		k := c.atomKey(x)
		unsignedX := c.proveAt(x.Block(), lx)
		switch x.Op {
		case token.AND:
			// x & K in [0, K] for K >= 0 ; also <= x when x >= 0
			if ly.IsConst() && ly.C.Sign() >= 0 {
				c.intr[k] = append(c.intr[k], GE0(l, "x&K >= 0"), GE0(ly.Sub(l), "x&K <= K"))
			} else if lx.IsConst() && lx.C.Sign() >= 0 {
				c.intr[k] = append(c.intr[k], GE0(l, "K&x >= 0"), GE0(lx.Sub(l), "K&x <= K"))
			}
			if unsignedX {
				c.intr[k] = append(c.intr[k], GE0(lx.Sub(l), "x&y <= x"))
			}
		case token.REM:
			if ly.IsConst() && ly.C.Sign() > 0 && unsignedX {
				c.intr[k] = append(c.intr[k], GE0(l, "x%K >= 0"), GE0(ly.AddConst(-1).Sub(l), "x%K <= K-1"))
			}
		case token.QUO:
			if ly.IsConst() && ly.C.Sign() > 0 && !unsignedX {
				// truncated division of a possibly negative x: a positive quotient implies K*q <= x
				if c.cintr == nil {
					c.cintr = map[string][]condFact{}
				}
				kq := NewLin().AddScaled(l, ly.C)
				c.cintr[k] = append(c.cintr[k], condFact{pre: l.AddConst(-1), post: GE0(lx.Sub(kq), "q = x/K >= 1 implies K*q <= x")})
			}
			if ly.IsConst() && ly.C.Sign() > 0 && unsignedX {
				// K*q <= x <= K*q + K-1
				kq := NewLin().AddScaled(l, ly.C)
				c.intr[k] = append(c.intr[k], GE0(l, "x/K >= 0"), GE0(lx.Sub(kq), "K*(x/K) <= x"),
					GE0(kq.Add(ly.AddConst(-1)).Sub(lx), "x <= K*(x/K)+K-1"))
			}
		case token.SHR:
			if ly.IsConst() && ly.C.IsInt() && ly.C.Num().IsInt64() && ly.C.Num().Int64() < 63 && unsignedX {
				kk := new(big.Rat).SetInt(new(big.Int).Lsh(big.NewInt(1), uint(ly.C.Num().Int64())))
				kq := NewLin().AddScaled(l, kk)
				c.intr[k] = append(c.intr[k], GE0(l, "x>>k >= 0"), GE0(lx.Sub(kq), "2^k*(x>>k) <= x"),
					GE0(kq.Add(&Lin{T: map[string]*big.Rat{}, C: new(big.Rat).Sub(kk, big.NewRat(1, 1))}).Sub(lx), "x <= 2^k*(x>>k)+2^k-1"))
			}
		}
		return l
	}
	if r == nil {
		return c.opaque(x)
	}
	if c.fits(x.Block(), r, x.Type()) {
		return r
	}
	if os.Getenv("GCV_DEBUG_FN") == core.FuncName(c.fn) && os.Getenv("GCV_DEBUG_FITS") != "" {
		fmt.Fprintf(os.Stderr, "nofit %s at %s: %s   raw: %s\n", c.describe(x), c.ba.Prog.Pos(x.Pos()), c.show(r), r.String())
		for a := range r.T {
			fmt.Fprintf(os.Stderr, "   atom %s: %d intrinsic facts\n", a, len(c.intr[a]))
		}
		for _, f := range c.gather(x.Block(), r) {
			fmt.Fprintf(os.Stderr, "      %s >= 0 [%s]\n", c.show(f.L), f.Why)
		}
	}
	return c.opaque(x)
}

// ---- induction variables ------------------------------------------------------------------

func (c *fctx) findIVs() {
	for _, b := range c.fn.Blocks {
		for _, ins := range b.Instrs {
			phi, ok := ins.(*ssa.Phi)
			if !ok {
				break
			}
			if _, _, isInt := intRange(phi.Type()); !isInt {
				continue
			}
			var init ssa.Value
			var step *int64
			var incs []*ssa.BinOp
			okIV := true
			for i, e := range phi.Edges {
				pred := b.Preds[i]
				if b.Dominates(pred) {
					// back edge: must be phi + const (possibly via a chain of such)
					bo, ok := c.canon(e).(*ssa.BinOp)
					if !ok || (bo.Op != token.ADD && bo.Op != token.SUB) {
						okIV = false
						break
					}
					if c.canon(bo.X) != ssa.Value(phi) {
						okIV = false
						break
					}
					cst, ok := c.canon(bo.Y).(*ssa.Const)
					if !ok {
						okIV = false
						break
					}
					cb := constBig(cst)
					if cb == nil || !cb.IsInt64() {
						okIV = false
						break
					}
					s := cb.Int64()
					if bo.Op == token.SUB {
						s = -s
					}
					if step != nil && *step != s {
						okIV = false
						break
					}
					step = &s
					incs = append(incs, bo)
				} else {
					if init != nil && init != e {
						okIV = false
						break
					}
					init = e
				}
			}
			if !okIV || init == nil || step == nil || *step == 0 {
				continue
			}
			c.ivs[phi] = &ivInfo{phi: phi, init: init, step: *step, incs: incs, ok: true}
		}
	}
	c.inferIVBounds()
	c.makeCandidates()
	// Joint greatest fixpoint (Houdini): assume every IV closed form and every
	// candidate loop invariant, check each one inductively under all the others,
	// drop what fails, repeat. What survives is inductive.
	c.registerIVFacts()
	c.linMemo = map[ssa.Value]*Lin{}
	c.branch = map[*ssa.BasicBlock][]Constraint{}
	c.execMemo, c.blkExec = nil, nil
	for changed := true; changed; {
		changed = false
		for _, iv := range c.sortedIVs() {
			if !iv.ok {
				continue
			}
			for _, inc := range iv.incs {
				l := LinAtom(c.atomKey(iv.phi)).AddConst(iv.step)
				c.opaque(iv.phi)
				okf := false
				c.atInstr(inc, func() { okf = c.fits(inc.Block(), l, inc.Type()) })
				if !okf {
					iv.ok = false
					changed = true
					break
				}
			}
		}
		for _, cd := range c.cands {
			if !cd.alive {
				continue
			}
			if cd.psi != nil {
				head := cd.psi.b
				for _, pred := range head.Preds {
					t := cd.formula(c, c.cellOutLin(cd.psi.cell, pred))
					if !c.proveOnEdge(pred, head, t) {
						if os.Getenv("GCV_DEBUG_FN") == core.FuncName(c.fn) {
							fmt.Fprintf(os.Stderr, "drop %s at head %d: edge from %d: need %s >= 0\n", cd.why, head.Index, pred.Index, c.show(t))
							c.atBlockEnd(pred, func() {
								for _, f := range c.gather(pred, t) {
									fmt.Fprintf(os.Stderr, "      %s >= 0 [%s]\n", c.show(f.L), f.Why)
								}
							})
						}
						cd.alive = false
						changed = true
						break
					}
				}
				continue
			}
			head := cd.phi.Block()
			for i, e := range cd.phi.Edges {
				pred := head.Preds[i]
				t := cd.formula(c, c.lin(e))
				if !c.proveOnEdge(pred, head, t) {
					if os.Getenv("GCV_DEBUG_FN") == core.FuncName(c.fn) {
						fmt.Fprintf(os.Stderr, "drop %s at head %d: edge from %d: need %s >= 0\n", cd.why, head.Index, pred.Index, c.show(t))
						c.atBlockEnd(pred, func() {
							for _, f := range c.gather(pred, t) {
								fmt.Fprintf(os.Stderr, "      %s >= 0 [%s]\n", c.show(f.L), f.Why)
							}
						})
					}
					cd.alive = false
					changed = true
					break
				}
			}
		}
		if changed {
			c.registerIVFacts()
			c.linMemo = map[ssa.Value]*Lin{}
			c.branch = map[*ssa.BasicBlock][]Constraint{}
			c.execMemo, c.blkExec = nil, nil
		}
	}
	c.registerIVFacts()
	c.linMemo = map[ssa.Value]*Lin{}
	c.branch = map[*ssa.BasicBlock][]Constraint{}
	c.execMemo, c.blkExec = nil, nil
}

// loop-invariant candidates for loop-head phis (cursor variables)
type cand struct {
	phi   *ssa.Phi
	psi   *psiNode // virtual phi of a local cell (when phi == nil)
	kind  string   // ge0 | geInit | leLen
	other *Lin     // init (geInit) or len atom (leLen)
	alive bool
	why   string
}

// formula returns the linear form that must be >= 0 when the phi has value v.
func (cd *cand) formula(c *fctx, v *Lin) *Lin {
	switch cd.kind {
	case "ge0":
		return v
	case "geInit":
		return v.Sub(cd.other)
	case "leBig":
		return LinBig(new(big.Int).Lsh(big.NewInt(1), 42)).Sub(v)
	default: // leLen
		return cd.other.Sub(v)
	}
}

func (c *fctx) makeCandidates() {
	c.cands = nil
	for _, b := range c.fn.Blocks {
		// every join point (loop heads and plain joins): at a plain join the check
		// degenerates to "holds on every incoming edge"
		if len(b.Preds) < 2 {
			continue
		}
		// loop-invariant slices whose length may bound a cursor
		var lens []*Lin
		seenLen := map[string]bool{}
		addLen := func(v ssa.Value) {
			if !isSliceLike(v.Type()) {
				return
			}
			l := c.lenOf(v)
			if len(l.T) != 1 || l.C.Sign() != 0 {
				return
			}
			k := l.String()
			if !seenLen[k] {
				seenLen[k] = true
				lens = append(lens, l)
			}
		}
		for _, p := range c.fn.Params {
			addLen(p)
		}
		for _, ob := range c.fn.Blocks {
			if ob == b || !ob.Dominates(b) {
				continue
			}
			for _, ins := range ob.Instrs {
				if v, ok := ins.(ssa.Value); ok && c.tl(v) {
					switch ins.(type) {
					case *ssa.UnOp, *ssa.Call, *ssa.Extract, *ssa.Field:
						addLen(v)
					}
				}
			}
		}
		for _, ps := range c.psiAt(b) {
			name := ps.cell.name
			c.cands = append(c.cands, &cand{psi: ps, kind: "ge0", alive: true, why: "IV: loop invariant " + name + " >= 0"})
			c.cands = append(c.cands, &cand{psi: ps, kind: "leBig", alive: true, why: "IV: loop invariant " + name + " <= 2^42 (no wrap-around)"})
			{
				var initL *Lin
				nInit := 0
				for _, pr := range b.Preds {
					if !b.Dominates(pr) {
						initL = c.cellOutLin(ps.cell, pr)
						nInit++
					}
				}
				if nInit == 1 && initL != nil && !initL.IsConst() {
					c.cands = append(c.cands, &cand{psi: ps, kind: "geInit", other: initL, alive: true, why: "IV: loop invariant " + name + " >= initial value"})
				}
			}
			seenL := map[string]bool{}
			for _, l := range lens {
				seenL[l.String()] = true
				c.cands = append(c.cands, &cand{psi: ps, kind: "leLen", other: l, alive: true, why: "IV: loop invariant " + name + " <= " + c.show(l)})
			}
			// record cells: the sibling length named by the record invariant
			for _, st := range ps.cell.stores {
				if fa, ok := st.Addr.(*ssa.FieldAddr); ok && ps.cell.alloc == nil {
					if f, ok := FieldOf(fa); ok {
						if sib, ok := c.ba.Cfg.FieldLeLen[f]; ok {
							if l := c.siblingLenAny(fa, sib); l != nil && !seenL[l.String()] {
								seenL[l.String()] = true
								c.cands = append(c.cands, &cand{psi: ps, kind: "leLen", other: l, alive: true, why: "IV: loop invariant " + name + " <= " + c.show(l)})
							}
						}
					}
				}
				break
			}
		}
		for _, ins := range b.Instrs {
			phi, ok := ins.(*ssa.Phi)
			if !ok {
				break
			}
			if _, _, isInt := intRange(phi.Type()); !isInt {
				continue
			}
			var init ssa.Value
			nInit := 0
			for i, e := range phi.Edges {
				if !b.Dominates(b.Preds[i]) {
					init = e
					nInit++
				}
			}
			name := c.dispOf(c.atomKey(phi))
			c.cands = append(c.cands, &cand{phi: phi, kind: "ge0", alive: true, why: "IV: loop invariant " + name + " >= 0"})
			c.cands = append(c.cands, &cand{phi: phi, kind: "leBig", alive: true, why: "IV: loop invariant " + name + " <= 2^42 (no wrap-around)"})
			if nInit == 1 {
				if _, isC := init.(*ssa.Const); !isC {
					c.cands = append(c.cands, &cand{phi: phi, kind: "geInit", other: c.lin(init), alive: true, why: "IV: loop invariant " + name + " >= initial value"})
				}
			}
			for _, l := range lens {
				c.cands = append(c.cands, &cand{phi: phi, kind: "leLen", other: l, alive: true, why: "IV: loop invariant " + name + " <= " + c.show(l)})
			}
		}
	}
}

// proveOnEdge: facts on the CFG edge pred->succ entail target >= 0 ?
func (c *fctx) proveOnEdge(pred, succ *ssa.BasicBlock, target *Lin) bool {
	if target.IsConst() {
		return target.C.Sign() >= 0
	}
	var extra []Constraint
	if iff, ok := pred.Instrs[len(pred.Instrs)-1].(*ssa.If); ok && len(pred.Succs) == 2 && pred.Succs[0] != pred.Succs[1] {
		extra = c.condFacts(iff.Cond, pred.Succs[0] == succ, 0)
	}
	res := false
	c.atBlockEnd(pred, func() { res = c.proveWith(pred, extra, target) })
	return res
}

// inferIVBounds handles loops whose increment is computed before the loop test
// ("for i := range x": t = phi+1; if t < N). The invariant phi <= N-1 holds by
// induction (initial value checked here; every back edge carries a value for
// which the test t < N succeeded), independently of wrap-around.
func (c *fctx) inferIVBounds() {
	for _, iv := range c.sortedIVs() {
		if iv.step <= 0 {
			continue
		}
		head := iv.phi.Block()
		for _, inc := range iv.incs {
			for _, ref := range *inc.Referrers() {
				cmp, ok := ref.(*ssa.BinOp)
				if !ok {
					continue
				}
				var n ssa.Value
				strict := false
				switch {
				case cmp.Op == token.LSS && cmp.X == ssa.Value(inc):
					n, strict = cmp.Y, true
				case cmp.Op == token.LEQ && cmp.X == ssa.Value(inc):
					n = cmp.Y
				case cmp.Op == token.GTR && cmp.Y == ssa.Value(inc):
					n, strict = cmp.X, true
				case cmp.Op == token.GEQ && cmp.Y == ssa.Value(inc):
					n = cmp.X
				default:
					continue
				}
				// N must be loop invariant
				if _, isC := n.(*ssa.Const); !isC {
					ni, ok := n.(ssa.Instruction)
					if !ok {
						if _, isP := n.(*ssa.Parameter); !isP {
							continue
						}
					} else if nb := ni.Block(); nb == head || !nb.Dominates(head) {
						continue
					}
				}
				// the comparison must control the back edges: find the If using cmp
				for _, r2 := range *cmp.Referrers() {
					iff, ok := r2.(*ssa.If)
					if !ok {
						continue
					}
					tsucc := iff.Block().Succs[0]
					if len(tsucc.Preds) != 1 {
						continue
					}
					all := true
					for i, pr := range head.Preds {
						if head.Dominates(pr) { // back edge
							_ = i
							if !tsucc.Dominates(pr) {
								all = false
							}
						}
					}
					if !all {
						continue
					}
					bound := c.lin(n)
					if strict {
						bound = bound.AddConst(-1)
					}
					// base case at the loop entry edge(s)
					base := true
					for i, pr := range head.Preds {
						if !head.Dominates(pr) {
							okb := false
							c.atBlockEnd(pr, func() { okb = c.proveAt(pr, bound.Sub(c.lin(iv.phi.Edges[i]))) })
							if !okb {
								base = false
							}
						}
					}
					if !base {
						continue
					}
					k := c.atomKey(iv.phi)
					c.opaque(iv.phi)
					c.intr[k] = append(c.intr[k], GE0(bound.Sub(LinAtom(k)), "loop bound: "+c.dispOf(k)+" <= "+c.show(bound)+" (induction over the loop test)"))
				}
			}
		}
	}
}

func (c *fctx) sortedIVs() []*ivInfo {
	var out []*ivInfo
	for _, iv := range c.ivs {
		out = append(out, iv)
	}
	sort.Slice(out, func(i, j int) bool { return out[i].phi.Name() < out[j].phi.Name() })
	return out
}

func (c *fctx) registerIVFacts() {
	// clear old IV facts
	for k, fs := range c.intr {
		var keep []Constraint
		for _, f := range fs {
			if !strings.HasPrefix(f.Why, "IV:") {
				keep = append(keep, f)
			}
		}
		c.intr[k] = keep
	}
	for _, cd := range c.cands {
		if !cd.alive {
			continue
		}
		var k string
		if cd.psi != nil {
			k = c.psiAtom(cd.psi)
		} else {
			k = c.atomKey(cd.phi)
			c.opaque(cd.phi)
		}
		c.intr[k] = append(c.intr[k], GE0(cd.formula(c, LinAtom(k)), cd.why))
	}
	ivs := c.sortedIVs()
	for _, iv := range ivs {
		if !iv.ok {
			continue
		}
		k := c.atomKey(iv.phi)
		c.opaque(iv.phi)
		initL := c.linNoIV(iv.init)
		if iv.step > 0 {
			c.intr[k] = append(c.intr[k], GE0(LinAtom(k).Sub(initL), "IV: "+c.dispOf(k)+" >= its initial value"))
		} else {
			c.intr[k] = append(c.intr[k], GE0(initL.Sub(LinAtom(k)), "IV: "+c.dispOf(k)+" <= its initial value"))
		}
	}
	// pairwise relations between IVs of the same loop head
	for i := 0; i < len(ivs); i++ {
		for j := i + 1; j < len(ivs); j++ {
			a, b := ivs[i], ivs[j]
			if !a.ok || !b.ok || a.phi.Block() != b.phi.Block() {
				continue
			}
			// both must be incremented on the same back edges (exactly once per iteration):
			// each is the value on every back edge, so (a - a0)*sb == (b - b0)*sa
			ka, kb := c.atomKey(a.phi), c.atomKey(b.phi)
			la := LinAtom(ka).Sub(c.linNoIV(a.init)).Scale(b.step)
			lb := LinAtom(kb).Sub(c.linNoIV(b.init)).Scale(a.step)
			d := la.Sub(lb)
			why := fmt.Sprintf("IV: (%s-init)*%d == (%s-init)*%d", c.dispOf(ka), b.step, c.dispOf(kb), a.step)
			c.intr[ka] = append(c.intr[ka], GE0(d, why), GE0(d.Scale(-1), why))
			c.intr[kb] = append(c.intr[kb], GE0(d, why), GE0(d.Scale(-1), why))
		}
	}
	// joins depend on the invariants: recompute (twice, for chains of joins)
	for round := 0; round < 2; round++ {
		for _, ps := range c.psiSeen {
			k := c.psiAtom(ps)
			c.dropJoin(k)
			c.psiJoin(ps, k)
		}
		for _, x := range c.phiSeen {
			k := c.atomKey(x)
			c.dropJoin(k)
			c.phiJoin(x, k)
		}
	}
}

// linNoIV linearises a loop-invariant initial value (defined before the loop).
func (c *fctx) linNoIV(v ssa.Value) *Lin { return c.lin(v) }

// ---- facts ---------------------------------------------------------------------------------

// condFacts converts a boolean SSA value being true/false into constraints.
func (c *fctx) condFacts(cond ssa.Value, truth bool, depth int) []Constraint {
	if depth > 4 {
		return nil
	}
	switch x := cond.(type) {
	case *ssa.UnOp:
		if x.Op == token.NOT {
			return c.condFacts(x.X, !truth, depth+1)
		}
	case *ssa.Phi:
		// a && b / a || b computed as a value (case of a tagless switch): on the side that differs from
		// the short-circuit constants every operand is known
		var out []Constraint
		for _, o := range BoolPhiOperands(x, truth) {
			out = append(out, c.condFacts(o.V, o.True, depth+1)...)
		}
		return out
	case *ssa.BinOp:
		op := x.Op
		switch op {
		case token.EQL, token.NEQ, token.LSS, token.LEQ, token.GTR, token.GEQ:
		default:
			return nil
		}
		if op == token.EQL || op == token.NEQ {
			// e != nil / e == nil on a result of a module call: fact on the result's nil-ness pseudo-variable
			var other ssa.Value
			if k, ok := x.Y.(*ssa.Const); ok && k.Value == nil && !isBasicT(k.Type()) {
				other = x.X
			} else if k, ok := x.X.(*ssa.Const); ok && k.Value == nil && !isBasicT(k.Type()) {
				other = x.Y
			}
			if ex, ok := other.(*ssa.Extract); ok {
				nonNil := (op == token.NEQ) == truth
				na := "nn:" + ex.Name()
				why := fmt.Sprintf("branch on nil-ness of %s at %s", ex.Name(), c.ba.Prog.Pos(x.Pos()))
				if nonNil {
					return []Constraint{GE0(LinAtom(na).AddConst(-1), why)}
				}
				return []Constraint{GE0(LinAtom(na).Scale(-1), why)}
			}
		}
		if _, _, ok := intRange(x.X.Type()); !ok {
			return nil
		}
		if !truth {
			switch op {
			case token.EQL:
				op = token.NEQ
			case token.NEQ:
				op = token.EQL
			case token.LSS:
				op = token.GEQ
			case token.LEQ:
				op = token.GTR
			case token.GTR:
				op = token.LEQ
			case token.GEQ:
				op = token.LSS
			}
		}
		a, b := c.lin(x.X), c.lin(x.Y)
		why := fmt.Sprintf("branch %s at %s", c.showCmp(a, op, b), c.ba.Prog.Pos(x.Pos()))
		switch op {
		case token.NEQ:
			// a != b together with a one-sided bound known from intrinsic facts
			d := a.Sub(b)
			if c.neqCollect != nil {
				*c.neqCollect = append(*c.neqCollect, neqFact{d, why})
			}
			lo, hi := BoundsOf(c.intrClosure(d), d)
			if lo != nil && lo.Sign() >= 0 {
				return []Constraint{GE0(d.AddConst(-1), why)}
			}
			if hi != nil && hi.Sign() <= 0 {
				return []Constraint{GE0(d.Scale(-1).AddConst(-1), why)}
			}
			return nil
		case token.EQL:
			return []Constraint{GE0(a.Sub(b), why), GE0(b.Sub(a), why)}
		case token.LSS:
			return []Constraint{GE0(b.Sub(a).AddConst(-1), why)}
		case token.LEQ:
			return []Constraint{GE0(b.Sub(a), why)}
		case token.GTR:
			return []Constraint{GE0(a.Sub(b).AddConst(-1), why)}
		case token.GEQ:
			return []Constraint{GE0(a.Sub(b), why)}
		}
	}
	return nil
}

// intrClosure: intrinsic (position-independent) facts reachable from l's atoms.
func (c *fctx) intrClosure(l *Lin) []Constraint {
	var facts []Constraint
	seen := map[string]bool{}
	var work []string
	for a := range l.T {
		seen[a] = true
		work = append(work, a)
	}
	for len(work) > 0 {
		a := work[len(work)-1]
		work = work[:len(work)-1]
		for _, f := range c.intr[a] {
			facts = append(facts, f)
			for b := range f.L.T {
				if !seen[b] {
					seen[b] = true
					work = append(work, b)
				}
			}
		}
	}
	return facts
}

func (c *fctx) showCmp(a *Lin, op token.Token, b *Lin) string {
	return c.show(a) + " " + op.String() + " " + c.show(b)
}

func (c *fctx) show(l *Lin) string {
	s := l.String()
	// replace atom keys by display names (longest first)
	var ks []string
	for k := range l.T {
		ks = append(ks, k)
	}
	sort.Slice(ks, func(i, j int) bool { return len(ks[i]) > len(ks[j]) })
	for _, k := range ks {
		s = strings.ReplaceAll(s, k, c.dispOf(k))
	}
	return s
}

// branchFacts: constraints from conditions on edges that dominate block b.
func (c *fctx) branchFacts(b *ssa.BasicBlock) []Constraint {
	if f, ok := c.branch[b]; ok {
		return f
	}
	c.branch[b] = nil // recursion guard
	hb0 := c.cycleHits
	var out []Constraint
	var neqs []neqFact
	saved := c.neqCollect
	c.neqCollect = &neqs
	defer func() { c.neqCollect = saved }()
	cur := b
	for cur != nil {
		d := cur.Idom()
		if d == nil {
			break
		}
		if len(cur.Preds) > 1 {
			c.neqCollect = nil
			out = append(out, c.mergeHull(cur)...)
			c.neqCollect = &neqs
		}
		// edge d -> s where s dominates b (s == cur or the unique succ on the way)
		if iff, ok := d.Instrs[len(d.Instrs)-1].(*ssa.If); ok && len(d.Succs) == 2 {
			for si, s := range d.Succs {
				if s == d.Succs[1-si] {
					continue
				}
				if len(s.Preds) == 1 && s.Dominates(b) {
					out = append(out, c.condFacts(iff.Cond, si == 0, 0)...)
				}
			}
		}
		cur = d
	}
	if c.neqAt == nil {
		c.neqAt = map[*ssa.BasicBlock][]neqFact{}
	}
	c.neqAt[b] = neqs
	if c.cycleHits == hb0 {
		c.branch[b] = out
	} else {
		delete(c.branch, b)
	}
	return out
}

// neqFact: the linear form d is known to be different from 0.
type neqFact struct {
	d   *Lin
	why string
}

// mergeHull: at a block entered from several branches (not a loop head) a quantity that every incoming edge
// bounds is bounded by the widest of those bounds: after "if n != 64 && n != 65 { return }" n is 64 on one
// edge and 65 on the other, so 64 <= n <= 65 at the merge.  Considered: the quantities the incoming edges'
// own branch conditions speak about alone.
func (c *fctx) mergeHull(m *ssa.BasicBlock) []Constraint {
	if len(m.Preds) > 4 {
		return nil // the end of a large switch: not worth the projection
	}
	for _, p := range m.Preds {
		if m.Dominates(p) {
			return nil // loop head
		}
	}
	if c.hull == nil {
		c.hull = map[*ssa.BasicBlock][]Constraint{}
	}
	if h, ok := c.hull[m]; ok {
		return h
	}
	c.hull[m] = nil
	out := c.mergeHull1(m)
	c.hull[m] = out
	return out
}

func (c *fctx) mergeHull1(m *ssa.BasicBlock) []Constraint {
	cands := map[string]bool{}
	per := make([][]Constraint, len(m.Preds))
	for i, p := range m.Preds {
		fs := append([]Constraint{}, c.branchFacts(p)...)
		if iff, ok := p.Instrs[len(p.Instrs)-1].(*ssa.If); ok && len(p.Succs) == 2 && p.Succs[0] != p.Succs[1] {
			ef := c.condFacts(iff.Cond, p.Succs[0] == m, 0)
			for _, f := range ef {
				if len(f.L.T) == 1 {
					for a := range f.L.T {
						cands[a] = true
					}
				}
			}
			fs = append(fs, ef...)
		}
		per[i] = fs
	}
	var names []string
	for a := range cands {
		names = append(names, a)
	}
	sort.Strings(names)
	var out []Constraint
	why := "widest bound over the branches that meet at " + c.ba.Prog.Pos(InstrPos(m.Instrs[0]))
	for _, a := range names {
		var minLo, maxHi *big.Rat
		okLo, okHi := true, true
		for i := range m.Preds {
			fs := per[i]
			for _, f := range c.intr[a] {
				fs = append(fs, f)
			}
			lo, hi := BoundsOf(fs, LinAtom(a))
			if lo == nil {
				okLo = false
			} else if minLo == nil || lo.Cmp(minLo) < 0 {
				minLo = lo
			}
			if hi == nil {
				okHi = false
			} else if maxHi == nil || hi.Cmp(maxHi) > 0 {
				maxHi = hi
			}
		}
		if okLo && minLo != nil {
			// integers: round the lower bound up
			n := new(big.Int).Quo(minLo.Num(), minLo.Denom())
			if new(big.Rat).SetInt(n).Cmp(minLo) < 0 {
				n.Add(n, big.NewInt(1))
			}
			if n.IsInt64() {
				out = append(out, GE0(LinAtom(a).AddConst(-n.Int64()), why))
			}
		}
		if okHi && maxHi != nil {
			n := new(big.Int).Quo(maxHi.Num(), maxHi.Denom())
			if new(big.Rat).SetInt(n).Cmp(maxHi) > 0 {
				n.Sub(n, big.NewInt(1))
			}
			if n.IsInt64() {
				out = append(out, GE0(LinAtom(a).Scale(-1).AddConst(n.Int64()), why))
			}
		}
	}
	return out
}

// neqTighten: "d != 0" outcomes that dominate b, combined with the facts in hand: where those bound d on one
// side by 0, the inequality becomes strict (integers).
func (c *fctx) neqTighten(b *ssa.BasicBlock, facts []Constraint, target *Lin) []Constraint {
	var out []Constraint
	for _, nf := range c.neqAt[b] {
		// only inequalities about a quantity the target itself mentions (a dispatch on an opcode leaves
		// hundreds of them behind)
		shares := false
		for a := range nf.d.T {
			if _, ok := target.T[a]; ok {
				shares = true
			}
		}
		if !shares {
			continue
		}
		lo, hi := BoundsOf(facts, nf.d)
		if lo != nil && lo.Sign() >= 0 {
			out = append(out, GE0(nf.d.Clone().AddConst(-1), nf.why))
		} else if hi != nil && hi.Sign() <= 0 {
			out = append(out, GE0(nf.d.Clone().Scale(-1).AddConst(-1), nf.why))
		}
	}
	return out
}

// edgeFacts: facts holding on the CFG edge pred -> succ, closed over the atoms of l.
func (c *fctx) edgeFacts(pred, succ *ssa.BasicBlock, l *Lin) []Constraint {
	oa, oe := c.at, c.atEnd
	c.at, c.atEnd = nil, pred
	defer func() { c.at, c.atEnd = oa, oe }()
	facts := c.gather(pred, l)
	if iff, ok := pred.Instrs[len(pred.Instrs)-1].(*ssa.If); ok && len(pred.Succs) == 2 && pred.Succs[0] != pred.Succs[1] {
		extra := c.condFacts(iff.Cond, pred.Succs[0] == succ, 0)
		facts = append(facts, extra...)
		// close over the new atoms
		for _, f := range extra {
			facts = append(facts, c.gather(pred, f.L)...)
		}
	}
	return facts
}

// proveAt: do the facts at block b entail target >= 0 ?
func (c *fctx) proveAt(b *ssa.BasicBlock, target *Lin) bool {
	return c.proveWith(b, nil, target)
}

func (c *fctx) proveWith(b *ssa.BasicBlock, extra []Constraint, target *Lin) bool {
	if target.IsConst() {
		return target.C.Sign() >= 0
	}
	facts, atoms := c.gatherAtoms(b, target)
	if len(c.neqAt[b]) > 0 {
		facts = append(facts, c.neqTighten(b, facts, target)...)
	}
	for _, e := range extra {
		facts = append(facts, e)
		f2, a2 := c.gatherAtoms(b, e.L)
		facts = append(facts, f2...)
		for a := range a2 {
			atoms[a] = true
		}
	}
	// case split over callee return sites (at most 3 calls)
	var calls []string
	seenCall := map[string]bool{}
	for a := range atoms {
		if cn, ok := c.atomCall[a]; ok && !seenCall[cn] && len(c.disj[cn]) > 0 {
			seenCall[cn] = true
			calls = append(calls, cn)
		}
	}
	if len(calls) == 0 {
		return Entails(facts, target)
	}
	if Entails(facts, target) {
		return true
	}
	sort.Strings(calls)
	// per-call case analysis projected on the call's own result atoms (interval hull of
	// the feasible return sites): linear in the number of calls
	facts = append(facts, c.hullFacts(calls, facts)...)
	if Entails(facts, target) {
		return true
	}
	if len(calls) > 3 {
		return false
	}
	var rec func(i int, fs []Constraint) bool
	rec = func(i int, fs []Constraint) bool {
		if i == len(calls) {
			return Entails(fs, target)
		}
		for _, cs := range c.disj[calls[i]] {
			nf := append(append([]Constraint{}, fs...), cs...)
			// close over atoms introduced by the case (lens of arguments)
			for _, f := range cs {
				nf = append(nf, c.gather(b, f.L)...)
			}
			if !rec(i+1, nf) {
				return false
			}
		}
		return true
	}
	return rec(0, facts)
}

// hullFacts: for each call, the interval hull of its result atoms over the return
// sites that are feasible under the given facts.
func (c *fctx) hullFacts(calls []string, facts []Constraint) []Constraint {
	var out []Constraint
	for _, cn := range calls {
		cases := c.disj[cn]
		atoms := map[string]bool{}
		for _, cs := range cases {
			for _, f := range cs {
				for a := range f.L.T {
					if c.atomCall[a] == cn {
						atoms[a] = true
					}
				}
			}
		}
		var names []string
		for a := range atoms {
			names = append(names, a)
		}
		sort.Strings(names)
		lo := map[string]*big.Rat{}
		hi := map[string]*big.Rat{}
		noLo := map[string]bool{}
		noHi := map[string]bool{}
		feasibleAny := false
		// only facts that mention one of the call's own result atoms matter for the hull
		var direct []Constraint
		for _, f := range facts {
			for a := range f.L.T {
				if atoms[a] {
					direct = append(direct, f)
					break
				}
			}
		}
		for _, cs := range cases {
			fs := append(append([]Constraint{}, direct...), cs...)
			// infeasible case: facts entail -1 >= 0
			if Entails(fs, LinConst(-1)) {
				continue
			}
			feasibleAny = true
			for _, a := range names {
				l, h := BoundsOf(fs, LinAtom(a))
				if l == nil {
					noLo[a] = true
				} else if cur, ok := lo[a]; !ok || l.Cmp(cur) < 0 {
					lo[a] = l
				}
				if h == nil {
					noHi[a] = true
				} else if cur, ok := hi[a]; !ok || h.Cmp(cur) > 0 {
					hi[a] = h
				}
			}
		}
		if !feasibleAny {
			// every return site contradicts the facts: the point is unreachable
			out = append(out, GE0(LinConst(-1), "no feasible return site"))
			continue
		}
		for _, a := range names {
			if !noLo[a] && lo[a] != nil {
				out = append(out, GE0(LinAtom(a).Sub(&Lin{T: map[string]*big.Rat{}, C: lo[a]}), "feasible return sites of "+cn))
			}
			if !noHi[a] && hi[a] != nil {
				out = append(out, GE0((&Lin{T: map[string]*big.Rat{}, C: hi[a]}).Sub(LinAtom(a)), "feasible return sites of "+cn))
			}
		}
	}
	return out
}

func (c *fctx) gather(b *ssa.BasicBlock, target *Lin) []Constraint {
	f, _ := c.gatherAtoms(b, target)
	return f
}

// at runs f with the program point set to "just before ins".
func (c *fctx) atInstr(ins ssa.Instruction, f func()) {
	oa, oe := c.at, c.atEnd
	c.at, c.atEnd = ins, nil
	f()
	c.at, c.atEnd = oa, oe
}

func (c *fctx) atBlockEnd(b *ssa.BasicBlock, f func()) {
	oa, oe := c.at, c.atEnd
	c.at, c.atEnd = nil, b
	f()
	c.at, c.atEnd = oa, oe
}

// execFacts: what holds once a (possibly panicking) index/slice instruction has executed.
func (c *fctx) execFacts(ins ssa.Instruction) []Constraint {
	if c.execMemo == nil {
		c.execMemo = map[ssa.Instruction][]Constraint{}
		c.execBusy = map[ssa.Instruction]bool{}
	}
	if f, ok := c.execMemo[ins]; ok {
		return f
	}
	if c.execBusy[ins] {
		return nil
	}
	c.execBusy[ins] = true
	hitsBefore := c.cycleHits
	var out []Constraint
	oa, oe := c.at, c.atEnd
	c.at, c.atEnd = ins, nil
	switch x := ins.(type) {
	case *ssa.Slice:
		if _, isStr := x.X.Type().Underlying().(*types.Basic); isStr || true {
			why := "executed " + c.ba.Prog.SrcAt(x.Pos())
			var lo, hi *Lin
			if x.Low != nil {
				lo = c.lin(x.Low)
				out = append(out, GE0(lo, why))
			}
			if x.High != nil {
				hi = c.lin(x.High)
				// high <= cap(x) <= 2^40
				out = append(out, GE0(LinBig(maxLen).Sub(hi), why), GE0(hi, why))
			} else {
				hi = c.lenOf(x.X)
			}
			if lo != nil {
				out = append(out, GE0(hi.Sub(lo), why))
			}
		}
	case *ssa.IndexAddr:
		if _, isMap := x.X.Type().Underlying().(*types.Map); !isMap {
			why := "executed " + c.ba.Prog.SrcAt(x.Pos())
			i := c.lin(x.Index)
			out = append(out, GE0(i, why), GE0(c.lenOf(x.X).Sub(i).AddConst(-1), why))
		}
	case *ssa.Index:
		if _, isMap := x.X.Type().Underlying().(*types.Map); !isMap {
			why := "executed " + c.ba.Prog.SrcAt(x.Pos())
			i := c.lin(x.Index)
			out = append(out, GE0(i, why), GE0(c.lenOf(x.X).Sub(i).AddConst(-1), why))
		}
	}
	c.at, c.atEnd = oa, oe
	delete(c.execBusy, ins)
	if c.cycleHits == hitsBefore {
		c.execMemo[ins] = out
	}
	return out
}

func isSinkInstr(ins ssa.Instruction) bool {
	switch ins.(type) {
	case *ssa.Slice, *ssa.IndexAddr, *ssa.Index:
		return true
	}
	return false
}

// pointFacts: executed-sink facts available at the current program point in block b.
func (c *fctx) pointFacts(b *ssa.BasicBlock) []Constraint {
	var out []Constraint
	// whole dominating blocks
	for d := b.Idom(); d != nil; d = d.Idom() {
		if c.blkExec == nil {
			c.blkExec = map[*ssa.BasicBlock][]Constraint{}
		}
		fs, ok := c.blkExec[d]
		if !ok {
			c.blkExec[d] = nil // recursion guard
			hb := c.cycleHits
			for _, ins := range d.Instrs {
				if isSinkInstr(ins) {
					fs = append(fs, c.execFacts(ins)...)
				}
			}
			if c.cycleHits == hb {
				c.blkExec[d] = fs
			} else {
				delete(c.blkExec, d)
			}
		}
		out = append(out, fs...)
	}
	// the block itself, up to the current point
	if c.atEnd == b {
		for _, ins := range b.Instrs {
			if isSinkInstr(ins) {
				out = append(out, c.execFacts(ins)...)
			}
		}
	} else if c.at != nil && c.at.Block() == b {
		for _, ins := range b.Instrs {
			if ins == c.at {
				break
			}
			if isSinkInstr(ins) {
				out = append(out, c.execFacts(ins)...)
			}
		}
	}
	return out
}

func (c *fctx) gatherAtoms(b *ssa.BasicBlock, target *Lin) ([]Constraint, map[string]bool) {
	facts := append([]Constraint{}, c.branchFacts(b)...)
	facts = append(facts, c.pointFacts(b)...)
	seen := map[string]bool{}
	var work []string
	add := func(l *Lin) {
		for a := range l.T {
			if !seen[a] {
				seen[a] = true
				work = append(work, a)
			}
		}
	}
	add(target)
	for _, f := range facts {
		add(f.L)
	}
	closure := func() {
		for len(work) > 0 {
			a := work[len(work)-1]
			work = work[:len(work)-1]
			for _, f := range c.intr[a] {
				facts = append(facts, f)
				add(f.L)
			}
		}
	}
	closure()
	if len(c.cintr) > 0 {
		used := map[string]bool{}
		for round := 0; round < 2; round++ {
			more := false
			for a := range seen {
				for i, cf := range c.cintr[a] {
					key := fmt.Sprintf("%s#%d", a, i)
					if used[key] {
						continue
					}
					if Entails(facts, cf.pre) {
						used[key] = true
						facts = append(facts, cf.post)
						add(cf.post.L)
						more = true
					}
				}
			}
			closure()
			if !more {
				break
			}
		}
	}
	return facts, seen
}

// condFact: post holds whenever pre >= 0 is entailed
type condFact struct {
	pre  *Lin
	post Constraint
}

// ---- loop progress ----------------------------------------------------------------------
//
// A loop whose continuation depends on attacker-influenced values must have a
// variant: an integer loop variable that strictly increases (decreases) on
// every back edge and is bounded in that direction by something tied to the
// input size. Accepted bounds for an increasing variant v:
//   (1) an exit test that keeps the loop only while v < B (or v <= B) with B a length, a
//       constant, or provably <= 64*len(input)+2^20;
//   (2) v is the low bound / index of a slice or index expression on an input-sized
//       slice executed on every iteration (running past the end panics or is caught);
// for a decreasing variant: an exit test v > B / v >= B with the initial value bounded as in (1).
// Consuming reads from an io.Reader-like source whose failure leaves the loop count as progress too.

var readerCalls = map[string]bool{
	"lib/btc.ReadVLen": true, "(*bytes.Reader).Read": true, "(*bytes.Buffer).Read": true, "(*bytes.Reader).ReadByte": true,
	"(*bytes.Buffer).ReadByte": true, "encoding/binary.Read": true, "io.ReadFull": true, "(*bytes.Buffer).Next": true,
	"(*bufio.Reader).Read": true, "(*bufio.Reader).ReadByte": true, "lib/btc.ReadVarInt": true, "lib/btc.ReadString": true,
}

var blockTag = regexp.MustCompile(`@b\d+`) // block numbers shift with every edit of the function

func (c *fctx) loopProgress() {
	for _, h := range c.fn.Blocks {
		var latches []*ssa.BasicBlock
		for _, pr := range h.Preds {
			if h.Dominates(pr) {
				latches = append(latches, pr)
			}
		}
		if len(latches) == 0 {
			continue
		}
		// loop body: blocks dominated by h from which a latch is reachable
		inLoop := map[*ssa.BasicBlock]bool{h: true}
		var stack []*ssa.BasicBlock
		stack = append(stack, latches...)
		for len(stack) > 0 {
			b := stack[len(stack)-1]
			stack = stack[:len(stack)-1]
			if inLoop[b] || !h.Dominates(b) {
				continue
			}
			inLoop[b] = true
			stack = append(stack, b.Preds...)
		}
		// is the loop's continuation attacker-influenced? (an exit test inside the loop on a tainted value)
		tainted := false
		var exitTests []*ssa.If
		for b := range inLoop {
			iff, ok := b.Instrs[len(b.Instrs)-1].(*ssa.If)
			if !ok {
				continue
			}
			leaves := !inLoop[b.Succs[0]] || !inLoop[b.Succs[1]]
			if !leaves {
				continue
			}
			exitTests = append(exitTests, iff)
			if bo, ok := iff.Cond.(*ssa.BinOp); ok {
				// integer comparisons only: pointer walks and boolean state tests are not counted loops
				if _, _, isInt := intRange(bo.X.Type()); isInt && (c.tv(bo.X) || c.tv(bo.Y)) {
					tainted = true
				}
			}
		}
		if !tainted {
			continue
		}
		pos := InstrPos(h.Instrs[len(h.Instrs)-1])
		where := c.ba.Prog.SrcAt(pos)
		// name the loop by the canonical rendering of its test rather than by its source text, so that
		// "0 != val" and "val != 0" are the same loop to an exception table
		if iff, ok := h.Instrs[len(h.Instrs)-1].(*ssa.If); ok {
			where = blockTag.ReplaceAllString(Expr(iff.Cond), "")
		} else if len(exitTests) == 1 {
			where = blockTag.ReplaceAllString(Expr(exitTests[0].Cond), "")
		}
		if c.loopHasVariant(h, latches, inLoop, exitTests) {
			c.ba.Obs = append(c.ba.Obs, &BoundOb{Fn: c.fn, Instr: h.Instrs[len(h.Instrs)-1], Kind: "progress", Expr: "loop " + where, Need: "a strictly monotone loop variable bounded by the input size", Proven: true, Chain: c.chain, InRecover: c.inRecover})
			continue
		}
		c.ba.Obs = append(c.ba.Obs, &BoundOb{Fn: c.fn, Instr: h.Instrs[len(h.Instrs)-1], Kind: "progress", Expr: "loop " + where,
			Need: "a strictly monotone loop variable bounded by the input size (the number of iterations is attacker-controlled and no cursor provably advances)", Proven: false, Chain: c.chain, InRecover: c.inRecover})
	}
}

type loopVar struct {
	atom  string
	edges func(pred *ssa.BasicBlock) *Lin // value carried on the back edge from pred
	init  func() (*Lin, *ssa.BasicBlock)
}

func (c *fctx) loopHasVariant(h *ssa.BasicBlock, latches []*ssa.BasicBlock, inLoop map[*ssa.BasicBlock]bool, exitTests []*ssa.If) bool {
	// a consuming read whose failure leaves the loop, executed on every iteration
	for b := range inLoop {
		domAll := true
		for _, l := range latches {
			if !b.Dominates(l) {
				domAll = false
			}
		}
		if !domAll {
			continue
		}
		for _, ins := range b.Instrs {
			if call, ok := ins.(*ssa.Call); ok && readerCalls[CallName(call)] {
				return true
			}
		}
	}
	var vars []loopVar
	for _, ins := range h.Instrs {
		phi, ok := ins.(*ssa.Phi)
		if !ok {
			break
		}
		if _, _, isInt := intRange(phi.Type()); !isInt {
			continue
		}
		p := phi
		vars = append(vars, loopVar{atom: c.atomKey(p), edges: func(pred *ssa.BasicBlock) *Lin {
			for i, pr := range h.Preds {
				if pr == pred {
					return c.lin(p.Edges[i])
				}
			}
			return nil
		}, init: func() (*Lin, *ssa.BasicBlock) {
			for i, pr := range h.Preds {
				if !h.Dominates(pr) {
					return c.lin(p.Edges[i]), pr
				}
			}
			return nil, nil
		}})
	}
	for _, ps := range c.psiAt(h) {
		q := ps
		vars = append(vars, loopVar{atom: c.psiAtom(q), edges: func(pred *ssa.BasicBlock) *Lin { return c.cellOutLin(q.cell, pred) },
			init: func() (*Lin, *ssa.BasicBlock) {
				for _, pr := range h.Preds {
					if !h.Dominates(pr) {
						return c.cellOutLin(q.cell, pr), pr
					}
				}
				return nil, nil
			}})
	}
	for _, v := range vars {
		va := LinAtom(v.atom)
		inc, dec := true, true
		for _, l := range latches {
			e := v.edges(l)
			if e == nil {
				inc, dec = false, false
				break
			}
			if !c.proveOnEdge(l, h, e.Sub(va).AddConst(-1)) {
				inc = false
			}
			if !c.proveOnEdge(l, h, va.Sub(e).AddConst(-1)) {
				dec = false
			}
		}
		if !inc && !dec {
			continue
		}
		// bound by an exit test
		for _, iff := range exitTests {
			b := iff.Block()
			domAll := true
			for _, l := range latches {
				if !b.Dominates(l) && b != l {
					domAll = false
				}
			}
			if !domAll {
				continue
			}
			stayTrue := inLoop[b.Succs[0]]
			for _, f := range c.condFacts(iff.Cond, stayTrue, 0) {
				co, ok := f.L.T[v.atom]
				if !ok {
					continue
				}
				if inc && co.Sign() < 0 {
					// B - k*v >= 0 : v bounded above by B/k ; B = f.L + k*v
					bnd := f.L.Clone()
					delete(bnd.T, v.atom)
					if c.inputBounded(b, bnd) {
						return true
					}
				}
				if dec && co.Sign() > 0 {
					// v bounded below by a loop test; the trip count is init - bound: init must be input-bounded
					if il, ib := v.init(); il != nil {
						okb := false
						c.atBlockEnd(ib, func() { okb = c.inputBounded(ib, il) })
						if okb {
							return true
						}
					}
				}
			}
		}
		if inc {
			// bound by a sink executed on every iteration that uses v as low bound / index on an input-sized slice
			for b := range inLoop {
				domAll := true
				for _, l := range latches {
					if !b.Dominates(l) {
						domAll = false
					}
				}
				if !domAll {
					continue
				}
				for _, ins := range b.Instrs {
					var base ssa.Value
					var idx ssa.Value
					switch x := ins.(type) {
					case *ssa.Slice:
						base, idx = x.X, x.Low
					case *ssa.IndexAddr:
						base, idx = x.X, x.Index
					case *ssa.Index:
						base, idx = x.X, x.Index
					}
					if base == nil || idx == nil {
						continue
					}
					if _, isMap := base.Type().Underlying().(*types.Map); isMap {
						continue
					}
					il := c.lin(idx)
					// idx >= v  (so idx <= len bounds v)
					if co, ok := il.T[v.atom]; ok && co.Sign() > 0 {
						return true
					}
				}
			}
		}
	}
	return false
}

// inputBounded: is l provably <= a constant (2^25) or <= 64*len(x)+2^20 for some length atom at block b?
func (c *fctx) inputBounded(b *ssa.BasicBlock, l *Lin) bool {
	if l.IsConst() {
		return true
	}
	if c.proveAt(b, LinConst(1<<25).Sub(l)) {
		return true
	}
	// every atom of l is a length or the bound is a multiple of lengths
	for a := range l.T {
		if strings.HasPrefix(a, "len:") {
			t := NewLin().AddScaled(LinAtom(a), big.NewRat(64, 1)).AddConst(1 << 20).Sub(l)
			if c.proveAt(b, t) {
				return true
			}
		}
	}
	for k := range c.intr {
		if strings.HasPrefix(k, "len:") {
			t := NewLin().AddScaled(LinAtom(k), big.NewRat(64, 1)).AddConst(1 << 20).Sub(l)
			if c.proveAt(b, t) {
				return true
			}
		}
	}
	return false
}

// ---- sinks ---------------------------------------------------------------------------------

func (c *fctx) ob(ins ssa.Instruction, kind, expr, need string, target *Lin, liftable bool) {
	oa, oe := c.at, c.atEnd
	c.at, c.atEnd = ins, nil
	defer func() { c.at, c.atEnd = oa, oe }()
	b := ins.Block()
	proven := c.proveAt(b, target)
	ob := &BoundOb{Fn: c.fn, Instr: ins, Kind: kind, Expr: expr, Need: need, Proven: proven, Chain: c.chain, InRecover: c.inRecover}
	if !proven {
		// try to lift to the caller: every atom must be a parameter or len(parameter)
		if liftable {
			if lt, ok := c.liftTarget(b, target); ok {
				ob.Proven = true // provisionally; decided at the call sites
				c.sum.pre = append(c.sum.pre, preCond{lt, ob})
				c.ba.Obs = append(c.ba.Obs, ob)
				return
			}
		}
		for _, f := range c.gather(b, target) {
			if strings.HasPrefix(f.Why, "type range") || strings.HasPrefix(f.Why, "0 <= len") {
				continue
			}
			ob.Facts = append(ob.Facts, c.show(f.L)+" >= 0   ["+f.Why+"]")
		}
		sort.Strings(ob.Facts)
		if len(ob.Facts) > 12 {
			ob.Facts = ob.Facts[:12]
		}
	}
	c.ba.Obs = append(c.ba.Obs, ob)
}

// liftTarget rewrites target over parameter atoms (P<i>, L<i>) if, using the
// local facts, target is implied by a constraint that mentions parameters
// only. Only the direct case is handled: every atom of target is a parameter
// atom and the local branch facts are irrelevant.
func (c *fctx) liftTarget(b *ssa.BasicBlock, target *Lin) (*Lin, bool) {
	// a loop variable that only grows from a parameter-given start (invariant "v >= initial value"): for a
	// lower bound it is enough to demand the bound of the start
	isParamAtom := func(a string) bool { return strings.HasPrefix(a, "p:") || strings.HasPrefix(a, "len:p:") }
	subst := target.Clone()
	for a, k := range target.T {
		if isParamAtom(a) || k.Sign() <= 0 {
			continue
		}
		for _, f := range c.intr[a] {
			// f: a - L >= 0 with L over parameters only
			ka, ok := f.L.T[a]
			if !ok || ka.Cmp(ratOne) != 0 || !strings.HasPrefix(f.Why, "IV:") {
				continue
			}
			rest := f.L.Clone()
			delete(rest.T, a)
			allParam := len(rest.T) > 0
			for o := range rest.T {
				if !isParamAtom(o) {
					allParam = false
				}
			}
			if !allParam {
				continue
			}
			// a >= -rest  =>  k*a >= -k*rest
			delete(subst.T, a)
			subst = subst.AddScaled(rest, new(big.Rat).Neg(k))
			break
		}
	}
	origAtoms := target.T
	target = subst
	_ = origAtoms
	out := NewLin()
	out.C.Set(target.C)
	for a, k := range target.T {
		var pa string
		switch {
		case strings.HasPrefix(a, "len:p:"):
			name := strings.TrimPrefix(a, "len:p:")
			idx := -1
			for i, p := range c.fn.Params {
				if p.Name() == name {
					idx = i
				}
			}
			if idx < 0 {
				return nil, false
			}
			pa = fmt.Sprintf("L%d", idx)
		case strings.HasPrefix(a, "p:"):
			name := strings.TrimPrefix(a, "p:")
			idx := -1
			for i, p := range c.fn.Params {
				if p.Name() == name {
					idx = i
				}
			}
			if idx < 0 {
				return nil, false
			}
			pa = fmt.Sprintf("P%d", idx)
		default:
			return nil, false
		}
		out.T[pa] = new(big.Rat).Set(k)
	}
	// the obligation must be unconditional in the callee (no branch facts mention its atoms);
	// otherwise lifting would demand more than the callee needs
	for _, f := range c.branchFacts(b) {
		for a := range f.L.T {
			if _, ok := target.T[a]; ok {
				return nil, false
			}
		}
	}
	return out, true
}

func (c *fctx) exprText(ins ssa.Instruction) string {
	return c.ba.Prog.SrcAt(InstrPos(ins))
}

func (c *fctx) sinks() {
	for _, b := range c.fn.Blocks {
		if c.fn.Recover == b {
			continue
		}
		for _, ins := range b.Instrs {
			switch x := ins.(type) {
			case *ssa.IndexAddr:
				if c.inRecover {
					continue
				}
				c.indexSink(x, x.X, x.Index)
			case *ssa.Index:
				if c.inRecover {
					continue
				}
				c.indexSink(x, x.X, x.Index)
			case *ssa.Slice:
				if c.inRecover {
					continue
				}
				c.sliceSink(x)
			case *ssa.MakeSlice:
				if c.tv(x.Len) {
					c.allocSink(x, x.Len)
				}
			case *ssa.MakeMap:
				if x.Reserve != nil && c.tv(x.Reserve) {
					c.allocSink(x, x.Reserve)
				}
			case *ssa.Call:
				c.callSite(x)
			case *ssa.Go:
				c.callSite(x)
			case *ssa.Defer:
				c.callSite(x)
			case *ssa.MakeClosure:
				c.closureSite(x)
			}
		}
	}
}

func isConstVal(v ssa.Value) bool {
	_, ok := v.(*ssa.Const)
	return ok
}

func (c *fctx) indexSink(ins ssa.Instruction, base, idx ssa.Value) {
	// arrays indexed by constants are checked by the compiler
	if _, isArr := Deref(base.Type()).Underlying().(*types.Array); isArr && isConstVal(idx) {
		return
	}
	if _, isMap := base.Type().Underlying().(*types.Map); isMap {
		return
	}
	if !c.tl(base) && !c.tv(idx) {
		return
	}
	li := c.lin(idx)
	ll := c.lenOf(base)
	txt := c.exprText(ins)
	c.ob(ins, "index", txt, c.show(li)+" >= 0", li, true)
	c.ob(ins, "index", txt, c.show(li)+" < "+c.show(ll), ll.Sub(li).AddConst(-1), true)
}

func (c *fctx) sliceSink(x *ssa.Slice) {
	tainted := c.tl(x.X) || c.tv(x.Low) || c.tv(x.High)
	if !tainted {
		return
	}
	if x.Low == nil && x.High == nil {
		return
	}
	ll := c.lenOf(x.X)
	txt := c.exprText(x)
	var lo, hi *Lin
	if x.Low != nil {
		lo = c.lin(x.Low)
	} else {
		lo = LinConst(0)
	}
	if x.High != nil {
		hi = c.lin(x.High)
		// conservative: high <= len (Go allows up to cap for slices)
		c.ob(x, "slice-high", txt, c.show(hi)+" <= "+c.show(ll), ll.Sub(hi), true)
	} else {
		hi = ll
	}
	if x.Low != nil {
		c.ob(x, "slice-low", txt, c.show(lo)+" >= 0", lo, true)
		c.ob(x, "slice-order", txt, c.show(lo)+" <= "+c.show(hi), hi.Sub(lo), true)
	} else if x.High != nil {
		c.ob(x, "slice-low", txt, c.show(hi)+" >= 0", hi, true)
	}
}

// allocSink: a tainted allocation size must be bounded by a constant (<= 2^25)
// or by 64*len(some tainted slice) + 2^20.
func (c *fctx) allocSink(ins ssa.Instruction, n ssa.Value) {
	oa, oe := c.at, c.atEnd
	c.at, c.atEnd = ins, nil
	defer func() { c.at, c.atEnd = oa, oe }()
	ln := c.lin(n)
	txt := c.exprText(ins)
	b := ins.Block()
	if c.proveAt(b, LinConst(1<<25).Sub(ln)) {
		c.ba.Obs = append(c.ba.Obs, &BoundOb{Fn: c.fn, Instr: ins, Kind: "alloc", Expr: txt, Need: c.show(ln) + " <= 2^25", Proven: true, Chain: c.chain, InRecover: c.inRecover})
		return
	}
	// candidate lens: every len atom known in this function that belongs to a tainted value
	var cands []string
	for k := range c.intr {
		if strings.HasPrefix(k, "len:") {
			cands = append(cands, k)
		}
	}
	// also lens of tainted parameters not yet seen
	for _, p := range c.fn.Params {
		if c.tl(p) {
			if _, ok := p.Type().Underlying().(*types.Slice); ok {
				l := c.lenOf(p)
				for a := range l.T {
					cands = append(cands, a)
				}
			}
		}
	}
	sort.Strings(cands)
	for _, k := range cands {
		t := NewLin().AddScaled(LinAtom(k), big.NewRat(64, 1)).AddConst(1 << 20).Sub(ln)
		if c.proveAt(b, t) {
			c.ba.Obs = append(c.ba.Obs, &BoundOb{Fn: c.fn, Instr: ins, Kind: "alloc", Expr: txt, Need: c.show(ln) + " <= 64*" + c.dispOf(k) + " + 2^20", Proven: true, Chain: c.chain, InRecover: c.inRecover})
			return
		}
	}
	ob := &BoundOb{Fn: c.fn, Instr: ins, Kind: "alloc", Expr: txt, Need: "allocation size " + c.show(ln) + " bounded by a constant or by a multiple of the input length", Proven: false, Chain: c.chain, InRecover: c.inRecover}
	for _, f := range c.gather(b, ln) {
		if strings.HasPrefix(f.Why, "type range") || strings.HasPrefix(f.Why, "0 <= len") {
			continue
		}
		ob.Facts = append(ob.Facts, c.show(f.L)+" >= 0   ["+f.Why+"]")
	}
	c.ba.Obs = append(c.ba.Obs, ob)
}

func (c *fctx) callSite(call ssa.CallInstruction) {
	cal := StaticCallee(call)
	if cal == nil || !core.InModule(cal) || cal.Blocks == nil {
		return
	}
	if c.ba.Cfg.Skip != nil && c.ba.Cfg.Skip(cal) {
		return
	}
	if _, ok := c.ba.Cfg.Post[CallName(call)]; ok {
		// summarised callee: its own body is verified separately
		return
	}
	args := call.Common().Args
	tp := map[int]bool{}
	for i, a := range args {
		if c.taint[a] != 0 && i < len(cal.Params) {
			tp[i] = true
		}
	}
	tf := map[int]bool{}
	if mc, ok := call.Common().Value.(*ssa.MakeClosure); ok {
		for i, bnd := range mc.Bindings {
			if c.taint[bnd] != 0 {
				tf[i] = true
			}
		}
	}
	if len(tp) == 0 && len(tf) == 0 {
		// still descend when an argument carries a struct with an untrusted field (the message record)
		carrier := false
		for _, a := range args {
			if c.ba.carriesTaintedField(a.Type()) {
				carrier = true
			}
		}
		if !carrier {
			return
		}
	}
	sum := c.ba.analyse(cal, tp, tf, append(append([]string{}, c.chain...), core.FuncName(cal)), c.inRecover)
	// instantiate the callee's lifted preconditions
	for _, pc := range sum.pre {
		inst := NewLin()
		inst.C.Set(pc.target.C)
		okInst := true
		for a, k := range pc.target.T {
			var idx int
			fmt.Sscanf(a[1:], "%d", &idx)
			if idx >= len(args) {
				okInst = false
				break
			}
			var l *Lin
			if a[0] == 'L' {
				l = c.lenOf(args[idx])
			} else {
				l = c.lin(args[idx])
			}
			inst = inst.AddScaled(l, k)
		}
		if !okInst {
			continue
		}
		if _, isGo := call.(*ssa.Go); isGo {
			// facts of the spawner hold when the goroutine starts (arguments are evaluated at the go statement)
		}
		need := fmt.Sprintf("precondition of %s: %s (%s at %s)", shortName(core.FuncName(cal)), pc.ob.Need, pc.ob.Expr, c.ba.Prog.Pos(InstrPos(pc.ob.Instr)))
		c.ob(call.(ssa.Instruction), "call-pre", c.exprText(call.(ssa.Instruction)), need+"  i.e. "+c.show(inst)+" >= 0", inst, true)
	}
}

func (c *fctx) closureSite(mc *ssa.MakeClosure) {
	fn, ok := mc.Fn.(*ssa.Function)
	if !ok {
		return
	}
	// closures that are only called in place are handled by callSite; others (stored, go, defer) here
	tf := map[int]bool{}
	for i, b := range mc.Bindings {
		if c.taint[b] != 0 {
			tf[i] = true
		}
	}
	if len(tf) == 0 {
		return
	}
	sum := c.ba.analyse(fn, nil, tf, append(append([]string{}, c.chain...), core.FuncName(fn)), c.inRecover)
	for _, pc := range sum.pre {
		pc.ob.Proven = false
	}
}

func isBasicT(t types.Type) bool {
	_, ok := t.Underlying().(*types.Basic)
	return ok
}

package an

// E-TERM: Herbrand (syntactic term) abstract interpretation of short, mostly
// straight-line code over mutable objects: big numbers, field elements, points,
// hashers and byte buffers. Every object carries the term that describes how
// its current value was computed from the function's inputs; calls that are not
// inlined are uninterpreted function symbols. The result, per path, is the term
// of every output object / return value and the path condition. Properties
// compare those terms with reference formulas (modulo commutativity), so
// renaming, statement reordering of independent steps and helper extraction do
// not matter, while a dropped reduction, swapped operands or a moved check do.

import (
	"fmt"
	"go/constant"
	"go/token"
	"go/types"
	"sort"
	"strings"

	"gcv/internal/core"

	"golang.org/x/tools/go/ssa"
)

type Term struct {
	Op   string
	Args []*Term
	str  string
}

func T(op string, args ...*Term) *Term { return &Term{Op: op, Args: args} }

func (t *Term) String() string {
	if t == nil {
		return "nil"
	}
	if t.str != "" {
		return t.str
	}
	if len(t.Args) == 0 {
		t.str = t.Op
		return t.str
	}
	parts := make([]string, len(t.Args))
	for i, a := range t.Args {
		parts[i] = a.String()
	}
	t.str = t.Op + "(" + strings.Join(parts, ",") + ")"
	return t.str
}

// Contains reports whether sub occurs in t (by canonical string).
func (t *Term) Contains(sub string) bool { return strings.Contains(t.String(), sub) }

// Walk visits all subterms.
func (t *Term) Walk(f func(*Term)) {
	if t == nil {
		return
	}
	f(t)
	for _, a := range t.Args {
		a.Walk(f)
	}
}

type TermCfg struct {
	// Inline: module callees whose body is interpreted (small wrappers); others are atomic symbols
	Inline   func(fn *ssa.Function) bool
	MaxPaths int
	MaxDepth int
	// Name gives the symbol used for an atomic callee (default: module-relative full name)
	Name func(fullName string) string
	// Writers: module functions that append an encoding of their 2nd argument to the stream given as
	// 1st argument (WriteVlen): modelled as write(stream, op(arg))
	Writers map[string]string
	// ParamNames: symbols for the root function's parameters by position (receiver first); default: source names.
	// Rules use it so that renaming a parameter does not change the terms.
	ParamNames []string
	// ParamNamesFor: the same per root function (takes precedence when it returns a non-empty list)
	ParamNamesFor func(fn *ssa.Function) []string
}

type tval struct {
	t    *Term
	addr string // non-empty: an address (object key)
}

type PathResult struct {
	Cond    []string // path condition, each "<term>" or "!<term>"
	CondT   []*Term  // the same conditions as terms (CondNeg[i] tells the polarity)
	CondNeg []bool
	Ret     []*Term          // returned values (pointers: the pointee's term)
	Heap    map[string]*Term // final terms of objects
	Calls   []*Term          // atomic calls in execution order (with argument terms)
	Loops   int
}

type termFrame struct {
	fn       *ssa.Function
	vals     map[ssa.Value]tval
	pred     *ssa.BasicBlock
	visit    map[*ssa.BasicBlock]int
	ctx      string
	loopSnap map[*ssa.BasicBlock]map[string]*Term
}

type termPath struct {
	heap  map[string]*Term
	condT []*Term
	condN []bool
	cond  []string
	calls []*Term
	loops int
}

func (p *termPath) clone() *termPath {
	n := &termPath{heap: make(map[string]*Term, len(p.heap)), cond: append([]string{}, p.cond...), calls: append([]*Term{}, p.calls...), loops: p.loops,
		condT: append([]*Term{}, p.condT...), condN: append([]bool{}, p.condN...)}
	for k, v := range p.heap {
		n.heap[k] = v
	}
	return n
}

type TermInterp struct {
	Prog    *core.Program
	Cfg     TermCfg
	results []PathResult
	npaths  int
	writes  map[*ssa.Function]map[int]bool
	busy    map[*ssa.Function]bool
	reads   map[*ssa.Function]map[int]bool
	rbusy   map[*ssa.Function]bool
	Aborted string
}

func NewTermInterp(p *core.Program, cfg TermCfg) *TermInterp {
	if cfg.MaxPaths == 0 {
		cfg.MaxPaths = 64
	}
	if cfg.MaxDepth == 0 {
		cfg.MaxDepth = 4
	}
	return &TermInterp{Prog: p, Cfg: cfg, writes: map[*ssa.Function]map[int]bool{}, busy: map[*ssa.Function]bool{}}
}

// Run interprets fn; parameters are inputs named after the parameters.
func (ti *TermInterp) Run(fn *ssa.Function) []PathResult {
	ti.results = nil
	ti.npaths = 0
	fr := &termFrame{fn: fn, vals: map[ssa.Value]tval{}, visit: map[*ssa.BasicBlock]int{}, loopSnap: map[*ssa.BasicBlock]map[string]*Term{}}
	for i, p := range fn.Params {
		name := p.Name()
		pn := ti.Cfg.ParamNames
		if ti.Cfg.ParamNamesFor != nil {
			if l := ti.Cfg.ParamNamesFor(fn); len(l) > 0 {
				pn = l
			}
		}
		if i < len(pn) && pn[i] != "" {
			name = pn[i]
		}
		fr.vals[p] = ti.paramVal(name, p.Type())
	}
	path := &termPath{heap: map[string]*Term{}}
	ti.walk(fr, fn.Blocks[0], nil, path, 0, func(ret []tval, p *termPath) {
		pr := PathResult{Cond: p.cond, Heap: p.heap, Calls: p.calls, Loops: p.loops, CondT: p.condT, CondNeg: p.condN}
		for _, r := range ret {
			pr.Ret = append(pr.Ret, ti.valueTerm(r, p))
		}
		ti.results = append(ti.results, pr)
	})
	return ti.results
}

func isPointerLike(t types.Type) bool {
	switch t.Underlying().(type) {
	case *types.Pointer, *types.Slice, *types.Interface, *types.Map:
		return true
	}
	return false
}

func (ti *TermInterp) paramVal(name string, t types.Type) tval {
	if isPointerLike(t) {
		return tval{addr: "p:" + name}
	}
	return tval{t: T("in:" + name)}
}

// valueTerm: the term of a value; for addresses the term of the object.
func (ti *TermInterp) valueTerm(v tval, p *termPath) *Term {
	if v.addr != "" {
		return ti.readObj(v.addr, p)
	}
	if v.t == nil {
		return T("?")
	}
	return v.t
}

func (ti *TermInterp) readObj(addr string, p *termPath) *Term {
	if t, ok := p.heap[addr]; ok {
		return t
	}
	// composite of sub-cells written individually
	var keys []string
	for k := range p.heap {
		if strings.HasPrefix(k, addr+".") || strings.HasPrefix(k, addr+"[") {
			keys = append(keys, k)
		}
	}
	if len(keys) > 0 {
		sort.Strings(keys)
		var args []*Term
		for _, k := range keys {
			args = append(args, T(strings.TrimPrefix(k, addr)+"=", p.heap[k]))
		}
		return T("obj", append([]*Term{ti.initial(addr)}, args...)...)
	}
	// a part of an object that was written as a whole: selector applied to the whole's term
	for i := len(addr) - 1; i > 2; i-- {
		if addr[i] == '.' || addr[i] == '[' {
			if t, ok := p.heap[addr[:i]]; ok {
				return T("sel:"+addr[i:], t)
			}
		}
	}
	return ti.initial(addr)
}

// NormalizeComm returns t with the arguments of the given commutative symbols sorted.
func NormalizeComm(t *Term, comm map[string]bool) *Term {
	if t == nil || len(t.Args) == 0 {
		return t
	}
	args := make([]*Term, len(t.Args))
	for i, a := range t.Args {
		args[i] = NormalizeComm(a, comm)
	}
	if comm[t.Op] {
		sort.Slice(args, func(i, j int) bool { return args[i].String() < args[j].String() })
	}
	return &Term{Op: t.Op, Args: args}
}

func (ti *TermInterp) initial(addr string) *Term {
	switch {
	case strings.HasPrefix(addr, "p:"):
		return T("in:" + strings.TrimPrefix(addr, "p:"))
	case strings.HasPrefix(addr, "g:"):
		return T("global:" + strings.TrimPrefix(addr, "g:"))
	case strings.HasPrefix(addr, "a:"):
		return T("zero")
	}
	return T("in:" + addr)
}

func (ti *TermInterp) writeObj(addr string, t *Term, p *termPath) {
	// a whole-object write supersedes sub-cells
	for k := range p.heap {
		if strings.HasPrefix(k, addr+".") || strings.HasPrefix(k, addr+"[") {
			delete(p.heap, k)
		}
	}
	p.heap[addr] = t
}

func (ti *TermInterp) eval(fr *termFrame, v ssa.Value, p *termPath) tval {
	if x, ok := fr.vals[v]; ok {
		return x
	}
	switch c := v.(type) {
	case *ssa.Const:
		if c.Value == nil {
			return tval{t: T("nil")}
		}
		if c.Value.Kind() == constant.String {
			return tval{t: T(fmt.Sprintf("const:%q", constant.StringVal(c.Value)))}
		}
		return tval{t: T("const:" + c.Value.ExactString())}
	case *ssa.Global:
		return tval{addr: "g:" + Path(c)}
	case *ssa.Function:
		return tval{t: T("func:" + core.FuncName(c))}
	case *ssa.FreeVar:
		return tval{addr: "fv:" + c.Name()}
	case *ssa.Builtin:
		return tval{t: T("builtin:" + c.Name())}
	}
	return tval{t: T("?" + v.Name())}
}

// loopBody: blocks of the natural loop headed by h.
func loopBody(h *ssa.BasicBlock) map[*ssa.BasicBlock]bool {
	body := map[*ssa.BasicBlock]bool{}
	var st []*ssa.BasicBlock
	for _, pr := range h.Preds {
		if h.Dominates(pr) {
			st = append(st, pr)
		}
	}
	if len(st) == 0 {
		return nil
	}
	body[h] = true
	for len(st) > 0 {
		b := st[len(st)-1]
		st = st[:len(st)-1]
		if body[b] || !h.Dominates(b) {
			continue
		}
		body[b] = true
		st = append(st, b.Preds...)
	}
	return body
}

func (ti *TermInterp) walk(fr *termFrame, b, pred *ssa.BasicBlock, p *termPath, depth int, done func([]tval, *termPath)) {
	if ti.npaths >= ti.Cfg.MaxPaths {
		ti.Aborted = "path limit reached"
		return
	}
	if b == fr.fn.Recover {
		return
	}
	fr.pred = pred
	fr.visit[b]++
	second := fr.visit[b] > 1
	body := loopBody(b)
	if body != nil {
		if !second {
			snap := map[string]*Term{}
			for k, v := range p.heap {
				snap[k] = v
			}
			fr.loopSnap[b] = snap
		} else {
			// one iteration done: wrap everything the body changed: loop(state before, state after one iteration)
			snap := fr.loopSnap[b]
			for k, v := range p.heap {
				pre, had := snap[k]
				if !had {
					pre = ti.initial(k)
				}
				if pre.String() != v.String() {
					p.heap[k] = T("loop", pre, v)
				}
			}
			p.loops++
		}
	}
	if fr.visit[b] > 2 {
		fr.visit[b]--
		return
	}
	for _, ins := range b.Instrs {
		switch x := ins.(type) {
		case *ssa.Return:
			var rs []tval
			for _, r := range x.Results {
				rs = append(rs, ti.eval(fr, r, p))
			}
			ti.npathsInc(depth)
			done(rs, p)
			fr.visit[b]--
			return
		case *ssa.Panic:
			fr.visit[b]--
			return
		case *ssa.If, *ssa.Jump:
		default:
			if !ti.step(fr, ins, p, depth) {
				fr.visit[b]--
				return
			}
		}
	}
	succs := b.Succs
	if iff, ok := b.Instrs[len(b.Instrs)-1].(*ssa.If); ok && len(succs) == 2 {
		ctT := ti.valueTerm(ti.eval(fr, iff.Cond, p), p)
		ct := ctT.String()
		for i, s := range succs {
			if !(second && body != nil) && ((ct == "const:true" && i == 1) || (ct == "const:false" && i == 0)) {
				continue // infeasible edge (not applied when leaving an abstracted loop)
			}
			if second && body != nil && body[s] {
				continue // after one iteration only the exits are followed
			}
			if !(second && body != nil) && p.contradicts(ctT, ct, i != 0) {
				continue // the same condition was decided the other way earlier on this path
			}
			np := p
			nfr := fr
			if i == 0 && !(second && body != nil) {
				np = p.clone()
				nfr = fr.clone()
			}
			nt, nn := normCondTerm(ctT, i != 0)
			np.condT = append(np.condT, nt)
			np.condN = append(np.condN, nn)
			if !nn {
				np.cond = append(np.cond, nt.String())
			} else {
				np.cond = append(np.cond, "!"+nt.String())
			}
			ti.walk(nfr, s, b, np, depth, done)
		}
	} else {
		for _, s := range succs {
			if second && body != nil && body[s] {
				continue
			}
			ti.walk(fr, s, b, p, depth, done)
		}
	}
	fr.visit[b]--
}

var complOp = map[string]string{"==": "!=", "!=": "==", "<": ">=", ">=": "<", ">": "<=", "<=": ">"}
var flipOp = map[string]string{"==": "==", "!=": "!=", "<": ">", ">": "<", "<=": ">=", ">=": "<="}

// normCondTerm records a branch condition in one form: a comparison taken on its false edge is the
// complementary comparison; a constant operand stands on the right; between two non-constant operands the
// relation is < or <= (a > b is b < a), and == / != order their operands by rendering.
// NormCond is normCondTerm for callers outside the package.
func NormCond(t *Term, neg bool) (*Term, bool) { return normCondTerm(t, neg) }

func normCondTerm(t *Term, neg bool) (*Term, bool) {
	if _, isCmp := complOp[t.Op]; !isCmp || len(t.Args) != 2 {
		return t, neg
	}
	op, a, b := t.Op, t.Args[0], t.Args[1]
	if neg {
		op, neg = complOp[op], false
	}
	isC := func(x *Term) bool { return strings.HasPrefix(x.Op, "const:") || x.Op == "nil" }
	swap := false
	switch {
	case isC(a) && !isC(b):
		swap = true
	case !isC(a) && !isC(b):
		switch op {
		case ">", ">=":
			swap = true
		case "==", "!=":
			swap = b.String() < a.String()
		}
	}
	if swap {
		op, a, b = flipOp[op], b, a
	}
	return &Term{Op: op, Args: []*Term{a, b}}, neg
}

// contradicts: the path already holds the opposite of (neg ? !c : c). Terms are
// pure functions of the inputs and of uniquely named call results, so an equal
// term has an equal value.
func (p *termPath) contradicts(c *Term, cs string, neg bool) bool {
	nc, nneg := normCondTerm(c, neg)
	c, cs, neg = nc, nc.String(), nneg
	alt := ""
	if co, ok := complOp[c.Op]; ok && len(c.Args) == 2 {
		at, _ := normCondTerm(&Term{Op: co, Args: c.Args}, false)
		alt = at.String()
	}
	for i, t := range p.cond {
		tn := p.condN[i]
		ts := t
		if tn {
			ts = t[1:]
		}
		if ts == cs && tn != neg {
			return true
		}
		if alt != "" && ts == alt && tn == neg {
			return true
		}
	}
	return false
}

func (ti *TermInterp) npathsInc(depth int) {
	if depth == 0 {
		ti.npaths++
	}
}

func (fr *termFrame) clone() *termFrame {
	n := &termFrame{fn: fr.fn, vals: make(map[ssa.Value]tval, len(fr.vals)), pred: fr.pred, visit: map[*ssa.BasicBlock]int{}, ctx: fr.ctx, loopSnap: map[*ssa.BasicBlock]map[string]*Term{}}
	for k, v := range fr.vals {
		n.vals[k] = v
	}
	for k, v := range fr.visit {
		n.visit[k] = v
	}
	for k, v := range fr.loopSnap {
		n.loopSnap[k] = v
	}
	return n
}

func (ti *TermInterp) step(fr *termFrame, ins ssa.Instruction, p *termPath, depth int) bool {
	switch x := ins.(type) {
	case *ssa.Alloc:
		name := x.Comment
		if name == "" || name == "new" || name == "complit" || name == "slicelit" || name == "makeslice" || name == "varargs" {
			name = x.Name() + ":" + x.Comment // several allocations share these generic comments
		}
		fr.vals[x] = tval{addr: "a:" + fr.ctx + name}
	case *ssa.Phi:
		b := x.Block()
		for i, pr := range b.Preds {
			if pr == fr.pred {
				fr.vals[x] = ti.eval(fr, x.Edges[i], p)
				return true
			}
		}
		fr.vals[x] = tval{t: T("?phi")}
	case *ssa.FieldAddr:
		base := ti.eval(fr, x.X, p)
		st, _ := Deref(x.X.Type()).Underlying().(*types.Struct)
		f := "?"
		if st != nil {
			f = st.Field(x.Field).Name()
		}
		if base.addr == "" {
			base.addr = "v:" + x.X.Name()
		}
		// embedded wrapper types (Number{big.Int}) are the same object as their only field
		if st != nil && st.NumFields() == 1 && st.Field(0).Embedded() {
			fr.vals[x] = tval{addr: base.addr}
		} else {
			fr.vals[x] = tval{addr: base.addr + "." + f}
		}
	case *ssa.Field:
		base := ti.eval(fr, x.X, p)
		st, _ := x.X.Type().Underlying().(*types.Struct)
		f := "?"
		if st != nil {
			f = st.Field(x.Field).Name()
		}
		fr.vals[x] = tval{t: T("field:"+f, ti.valueTerm(base, p))}
	case *ssa.IndexAddr:
		base := ti.eval(fr, x.X, p)
		idx := ti.valueTerm(ti.eval(fr, x.Index, p), p)
		if base.addr == "" {
			base.addr = "v:" + x.X.Name()
		}
		is := "*"
		if strings.HasPrefix(idx.Op, "const:") {
			is = strings.TrimPrefix(idx.Op, "const:")
		} else if strings.HasPrefix(idx.Op, "in:") && len(idx.Args) == 0 {
			is = strings.TrimPrefix(idx.Op, "in:")
		} else if fr.inLoop(x.Block()) {
			is = "i"
		}
		fr.vals[x] = tval{addr: base.addr + "[" + is + "]"}
	case *ssa.Index:
		base := ti.valueTerm(ti.eval(fr, x.X, p), p)
		fr.vals[x] = tval{t: T("index", base, ti.valueTerm(ti.eval(fr, x.Index, p), p))}
	case *ssa.Lookup:
		fr.vals[x] = tval{t: T("lookup", ti.valueTerm(ti.eval(fr, x.X, p), p), ti.valueTerm(ti.eval(fr, x.Index, p), p))}
	case *ssa.UnOp:
		v := ti.eval(fr, x.X, p)
		if x.Op == token.MUL {
			if v.addr != "" {
				if isPointerLike(x.Type()) {
					// loading a pointer/slice/interface stored in a cell: the value is itself an address
					if t, ok := p.heap[v.addr]; ok && strings.HasPrefix(t.Op, "addr:") {
						fr.vals[x] = tval{addr: strings.TrimPrefix(t.Op, "addr:")}
					} else {
						fr.vals[x] = tval{addr: v.addr + "^"}
					}
				} else {
					fr.vals[x] = tval{t: ti.readObj(v.addr, p)}
				}
			} else {
				fr.vals[x] = tval{t: T("load", v.t)}
			}
			return true
		}
		fr.vals[x] = tval{t: T(x.Op.String(), ti.valueTerm(v, p))}
	case *ssa.Store:
		a := ti.eval(fr, x.Addr, p)
		v := ti.eval(fr, x.Val, p)
		if a.addr == "" {
			return true
		}
		if v.addr != "" && isPointerLike(x.Val.Type()) {
			ti.writeObj(a.addr, T("addr:"+v.addr), p)
		} else {
			ti.writeObj(a.addr, ti.valueTerm(v, p), p)
		}
	case *ssa.BinOp:
		a, b := ti.valueTerm(ti.eval(fr, x.X, p), p), ti.valueTerm(ti.eval(fr, x.Y, p), p)
		op := x.Op.String()
		switch x.Op {
		case token.ADD, token.MUL, token.AND, token.OR, token.XOR, token.EQL, token.NEQ:
			if a.String() > b.String() {
				a, b = b, a
			}
		}
		if strings.HasPrefix(a.Op, "const:") && strings.HasPrefix(b.Op, "const:") && len(a.Args) == 0 && len(b.Args) == 0 {
			if folded := foldConst(x.Op, ti.valueTerm(ti.eval(fr, x.X, p), p).Op, ti.valueTerm(ti.eval(fr, x.Y, p), p).Op); folded != "" {
				fr.vals[x] = tval{t: T(folded)}
				return true
			}
		}
		fr.vals[x] = tval{t: T(op, a, b)}
	case *ssa.Convert:
		v := ti.eval(fr, x.X, p)
		if v.addr != "" {
			fr.vals[x] = v
		} else {
			// integer width conversions are kept (they can truncate), others dropped
			if _, _, ok := intRange(x.Type()); ok {
				fr.vals[x] = tval{t: T("conv:"+x.Type().String(), v.t)}
			} else {
				fr.vals[x] = v
			}
		}
	case *ssa.ChangeType:
		fr.vals[x] = ti.eval(fr, x.X, p)
	case *ssa.ChangeInterface:
		fr.vals[x] = ti.eval(fr, x.X, p)
	case *ssa.MakeInterface:
		fr.vals[x] = ti.eval(fr, x.X, p)
	case *ssa.TypeAssert:
		fr.vals[x] = ti.eval(fr, x.X, p)
	case *ssa.Slice:
		v := ti.eval(fr, x.X, p)
		if x.Low == nil && x.High == nil {
			fr.vals[x] = v
			return true
		}
		lo, hi := T("0"), T("end")
		if x.Low != nil {
			lo = ti.valueTerm(ti.eval(fr, x.Low, p), p)
		}
		if x.High != nil {
			hi = ti.valueTerm(ti.eval(fr, x.High, p), p)
		}
		if v.addr != "" {
			fr.vals[x] = tval{addr: v.addr + "[" + lo.String() + ":" + hi.String() + "]"}
			// reading a sub-range of an object whose whole value is known
			if whole, ok := p.heap[v.addr]; ok {
				p.heap[v.addr+"["+lo.String()+":"+hi.String()+"]"] = T("slice", whole, lo, hi)
			}
		} else {
			fr.vals[x] = tval{t: T("slice", v.t, lo, hi)}
		}
	case *ssa.MakeSlice:
		fr.vals[x] = tval{addr: "a:" + fr.ctx + "make" + x.Name()}
		p.heap["a:"+fr.ctx+"make"+x.Name()] = T("zeroes", ti.valueTerm(ti.eval(fr, x.Len, p), p))
	case *ssa.MakeMap, *ssa.MakeChan:
		fr.vals[x.(ssa.Value)] = tval{addr: "a:" + fr.ctx + x.(ssa.Value).Name()}
	case *ssa.MakeClosure:
		fr.vals[x] = tval{t: T("closure:" + x.Fn.Name())}
	case *ssa.Extract:
		tv := ti.eval(fr, x.Tuple, p)
		if tv.t != nil && tv.t.Op == "tuple" && x.Index < len(tv.t.Args) {
			a := tv.t.Args[x.Index]
			if strings.HasPrefix(a.Op, "addr:") {
				fr.vals[x] = tval{addr: strings.TrimPrefix(a.Op, "addr:")}
			} else {
				fr.vals[x] = tval{t: a}
			}
		} else {
			fr.vals[x] = tval{t: T(fmt.Sprintf("extract%d", x.Index), ti.valueTerm(tv, p))}
		}
	case *ssa.Call:
		return ti.call(fr, x, p, depth)
	case *ssa.Defer, *ssa.Go, *ssa.RunDefers, *ssa.DebugRef, *ssa.MapUpdate, *ssa.Send:
	case *ssa.Range, *ssa.Next, *ssa.Select:
		if v, ok := ins.(ssa.Value); ok {
			fr.vals[v] = tval{t: T("?" + v.Name())}
		}
	}
	return true
}

// foldConst evaluates an integer operation on two constant leaves ("const:<int>").
func foldConst(op token.Token, xs, ys string) string {
	var x, y int64
	if _, err := fmt.Sscanf(strings.TrimPrefix(xs, "const:"), "%d", &x); err != nil {
		return ""
	}
	if _, err := fmt.Sscanf(strings.TrimPrefix(ys, "const:"), "%d", &y); err != nil {
		return ""
	}
	b := func(v bool) string {
		if v {
			return "const:true"
		}
		return "const:false"
	}
	switch op {
	case token.ADD:
		return fmt.Sprintf("const:%d", x+y)
	case token.SUB:
		return fmt.Sprintf("const:%d", x-y)
	case token.MUL:
		return fmt.Sprintf("const:%d", x*y)
	case token.LSS:
		return b(x < y)
	case token.LEQ:
		return b(x <= y)
	case token.GTR:
		return b(x > y)
	case token.GEQ:
		return b(x >= y)
	case token.EQL:
		return b(x == y)
	case token.NEQ:
		return b(x != y)
	}
	return ""
}

func (fr *termFrame) inLoop(b *ssa.BasicBlock) bool {
	for h := range fr.loopSnap {
		if body := loopBody(h); body != nil && body[b] && fr.visit[h] > 0 {
			return true
		}
	}
	return false
}

func (ti *TermInterp) sym(name string) string {
	if ti.Cfg.Name != nil {
		return ti.Cfg.Name(name)
	}
	return name
}

// writesParam: does fn (transitively) write memory reachable through parameter i?
func (ti *TermInterp) writesParam(fn *ssa.Function, idx int) bool {
	if m, ok := ti.writes[fn]; ok {
		return m[idx]
	}
	if fn == nil || fn.Blocks == nil {
		return true
	}
	if ti.busy[fn] {
		return false
	}
	ti.busy[fn] = true
	m := map[int]bool{}
	Instrs(fn, func(i ssa.Instruction) {
		switch x := i.(type) {
		case *ssa.Store:
			if pi, ok := paramRoot(fn, x.Addr); ok {
				m[pi] = true
			}
		case ssa.CallInstruction:
			cal := StaticCallee(x)
			args := x.Common().Args
			for ai, a := range args {
				pi, ok := paramRoot(fn, a)
				if !ok {
					// slices of parameter memory
					if sl, isSl := a.(*ssa.Slice); isSl {
						pi, ok = paramRoot(fn, sl.X)
					}
				}
				if !ok {
					continue
				}
				if bi, isB := x.Common().Value.(*ssa.Builtin); isB {
					if bi.Name() == "copy" && ai == 0 {
						m[pi] = true
					}
					continue
				}
				if cal != nil && core.InModule(cal) {
					if ti.writesParam(cal, ai) {
						m[pi] = true
					}
				} else if externalWrites(CalleeFunc(x), ai, x.Common().IsInvoke()) {
					m[pi] = true
				}
			}
			if x.Common().IsInvoke() {
				if pi, ok := paramRoot(fn, x.Common().Value); ok && externalWrites(x.Common().Method, -1, true) {
					m[pi] = true
				}
			}
		}
	})
	delete(ti.busy, fn)
	ti.writes[fn] = m
	return m[idx]
}

// readsParam: does fn (transitively) read memory reachable through parameter i?
func (ti *TermInterp) readsParam(fn *ssa.Function, idx int) bool {
	if ti.reads == nil {
		ti.reads = map[*ssa.Function]map[int]bool{}
		ti.rbusy = map[*ssa.Function]bool{}
	}
	if m, ok := ti.reads[fn]; ok {
		return m[idx]
	}
	if fn == nil || fn.Blocks == nil || ti.rbusy[fn] {
		return true
	}
	ti.rbusy[fn] = true
	m := map[int]bool{}
	Instrs(fn, func(i ssa.Instruction) {
		switch x := i.(type) {
		case *ssa.UnOp:
			if x.Op == token.MUL {
				if _, isAlloc := x.X.(*ssa.Alloc); isAlloc {
					return
				}
				if pi, ok := paramRoot(fn, x.X); ok {
					m[pi] = true
				}
			}
		case ssa.CallInstruction:
			cal := StaticCallee(x)
			for ai, a := range x.Common().Args {
				pi, ok := paramRoot(fn, a)
				if !ok {
					if sl, isSl := a.(*ssa.Slice); isSl {
						pi, ok = paramRoot(fn, sl.X)
					}
				}
				if !ok {
					continue
				}
				if cal != nil && core.InModule(cal) {
					if ti.readsParam(cal, ai) {
						m[pi] = true
					}
				} else if !pureDest(CalleeFunc(x), ai) {
					m[pi] = true
				}
			}
			if x.Common().IsInvoke() {
				if pi, ok := paramRoot(fn, x.Common().Value); ok {
					m[pi] = true
				}
			}
		}
	})
	delete(ti.rbusy, fn)
	ti.reads[fn] = m
	return m[idx]
}

// pureDest: argument argIdx of an external callee is only a destination (its old value is irrelevant).
func pureDest(f *types.Func, argIdx int) bool {
	if f == nil {
		return false
	}
	name := f.FullName()
	if strings.HasPrefix(name, "(*math/big.Int).") && argIdx == 0 {
		sig := f.Type().(*types.Signature)
		return sig.Results().Len() >= 1 && types.Identical(sig.Results().At(0).Type(), sig.Recv().Type())
	}
	if name == "io.ReadFull" && argIdx == 1 {
		return true
	}
	if name == "crypto/rand.Read" {
		return true
	}
	return false
}

// externalWrites: conservative knowledge about non-module callees: receivers of
// big-number setters, Write/Reset methods and destination buffers are written.
func externalWrites(f *types.Func, argIdx int, invoke bool) bool {
	if f == nil {
		return true
	}
	name := f.FullName()
	sig := f.Type().(*types.Signature)
	recvIdx := 0
	if invoke {
		recvIdx = -1
	}
	if sig.Recv() != nil && argIdx == recvIdx {
		if strings.HasPrefix(name, "(*math/big.Int).") {
			// setters return the receiver
			return sig.Results().Len() >= 1 && types.Identical(sig.Results().At(0).Type(), sig.Recv().Type())
		}
		switch f.Name() {
		case "Write", "WriteByte", "WriteString", "Reset", "Read", "ReadByte", "Next", "Seek", "UnmarshalBinary":
			return true
		}
		return false
	}
	switch name {
	case "crypto/rand.Read", "io.ReadFull", "encoding/hex.Decode":
		return true
	case "encoding/binary.Write", "io.WriteString", "fmt.Fprint", "fmt.Fprintf", "fmt.Fprintln":
		// the writer argument
		return argIdx == 0 || (invoke && argIdx == 0)
	case "encoding/binary.Read":
		return argIdx == 0 || argIdx == 2
	}
	if strings.Contains(name, "binary.littleEndian).Put") || strings.Contains(name, "binary.bigEndian).Put") {
		return true
	}
	return false
}

func (ti *TermInterp) call(fr *termFrame, x *ssa.Call, p *termPath, depth int) bool {
	cc := x.Call
	name := CallName(x)
	var args []tval
	if cc.IsInvoke() {
		args = append(args, ti.eval(fr, cc.Value, p))
	}
	for _, a := range cc.Args {
		args = append(args, ti.eval(fr, a, p))
	}
	argTerms := func() []*Term {
		var out []*Term
		for _, a := range args {
			out = append(out, ti.valueTerm(a, p))
		}
		return out
	}
	// builtins
	if b, ok := cc.Value.(*ssa.Builtin); ok {
		at := argTerms()
		switch b.Name() {
		case "copy":
			if args[0].addr != "" {
				ti.writeObj(args[0].addr, T("copy", at[1]), p)
			}
			fr.vals[x] = tval{t: T("copy-n")}
		case "append":
			fr.vals[x] = tval{t: T("append", at...)}
		default:
			fr.vals[x] = tval{t: T(b.Name(), at...)}
		}
		return true
	}
	cal := StaticCallee(x)
	if _, isW := ti.Cfg.Writers[name]; isW {
		goto atomic
	}
	if cal != nil && core.InModule(cal) && cal.Blocks != nil && ti.Cfg.Inline != nil && ti.Cfg.Inline(cal) && depth < ti.Cfg.MaxDepth {
		// interpret the callee on this path; all of its paths continue the caller
		nfr := &termFrame{fn: cal, vals: map[ssa.Value]tval{}, visit: map[*ssa.BasicBlock]int{}, ctx: fr.ctx + cal.Name() + x.Name() + "/", loopSnap: map[*ssa.BasicBlock]map[string]*Term{}}
		for i, prm := range cal.Params {
			if i < len(args) {
				nfr.vals[prm] = args[i]
			}
		}
		var rets [][]tval
		var paths []*termPath
		ti.walk(nfr, cal.Blocks[0], nil, p.clone(), depth+1, func(ret []tval, cp *termPath) {
			rets = append(rets, ret)
			paths = append(paths, cp)
		})
		if len(paths) != 1 {
			// multi-path helper: fall back to an atomic symbol
			goto atomic
		}
		*p = *paths[0]
		switch len(rets[0]) {
		case 0:
		case 1:
			fr.vals[x] = rets[0][0]
		default:
			var ts []*Term
			for _, r := range rets[0] {
				if r.addr != "" {
					ts = append(ts, T("addr:"+r.addr))
				} else {
					ts = append(ts, r.t)
				}
			}
			fr.vals[x] = tval{t: T("tuple", ts...)}
		}
		return true
	}
atomic:
	at := argTerms()
	symb := ti.sym(name)
	if symb == "" {
		symb = "call:?"
	}
	fcal := CalleeFunc(x)
	// arguments that are destinations only do not belong to the value computed
	var inArgs []*Term
	for i, a := range args {
		dest := false
		if a.addr != "" {
			if cal != nil && core.InModule(cal) {
				dest = ti.writesParam(cal, i) && !ti.readsParam(cal, i)
			} else {
				ai := i
				if cc.IsInvoke() {
					ai = i - 1
				}
				dest = pureDest(fcal, ai)
			}
		}
		if !dest {
			inArgs = append(inArgs, at[i])
		}
	}
	callTerm := T(symb, inArgs...)
	p.calls = append(p.calls, callTerm)
	// written arguments
	f := CalleeFunc(x)
	for i, a := range args {
		if a.addr == "" {
			continue
		}
		written := false
		if cal != nil && core.InModule(cal) {
			written = ti.writesParam(cal, i)
		} else {
			ai := i
			if cc.IsInvoke() {
				ai = i - 1
			}
			written = externalWrites(f, ai, cc.IsInvoke())
		}
		if written {
			// stream-like receivers accumulate: write(prev, data)
			if name == "encoding/binary.Write" && i == 0 && len(at) >= 3 {
				ord := "le"
				if strings.Contains(at[1].String(), "BigEndian") {
					ord = "be"
				} else if !strings.Contains(at[1].String(), "LittleEndian") {
					ord = "order?"
				}
				ti.writeObj(a.addr, T("write", at[0], T(ord, at[2])), p)
			} else if op, isW := ti.Cfg.Writers[name]; isW && i == 0 && len(at) >= 2 {
				ti.writeObj(a.addr, T("write", at[0], T(op, at[1:]...)), p)
			} else if f != nil && f.Name() == "Reset" && i == 0 {
				ti.writeObj(a.addr, T("reset"), p)
			} else if f != nil && (f.Name() == "Write" || f.Name() == "WriteByte" || f.Name() == "WriteString") && i == 0 {
				ti.writeObj(a.addr, T("write", append([]*Term{at[0]}, at[1:]...)...), p)
			} else if name == "encoding/binary.Write" && i == 0 {
				ti.writeObj(a.addr, T("write", at[0], T("le", at[2])), p)
			} else if pureDest(fcal, map[bool]int{true: i - 1, false: i}[cc.IsInvoke()]) && !(cal != nil && core.InModule(cal)) {
				ti.writeObj(a.addr, T(symb, inArgs...), p) // z.Op(x,y): z = Op(x,y)
			} else {
				ti.writeObj(a.addr, T(fmt.Sprintf("%s#%d", symb, i), inArgs...), p)
			}
		}
	}
	// result
	if tup, ok := x.Type().(*types.Tuple); ok {
		var ts []*Term
		for i := 0; i < tup.Len(); i++ {
			ts = append(ts, T(fmt.Sprintf("%s.r%d", symb, i), inArgs...))
		}
		fr.vals[x] = tval{t: T("tuple", ts...)}
		return true
	}
	// big-number setters return their receiver
	if f != nil && strings.HasPrefix(f.FullName(), "(*math/big.Int).") && len(args) > 0 && args[0].addr != "" {
		sig := f.Type().(*types.Signature)
		if sig.Results().Len() == 1 && types.Identical(sig.Results().At(0).Type(), sig.Recv().Type()) {
			fr.vals[x] = tval{addr: args[0].addr}
			return true
		}
	}
	if isPointerLike(x.Type()) {
		addr := "r:" + fr.ctx + x.Name()
		p.heap[addr] = callTerm
		fr.vals[x] = tval{addr: addr}
		return true
	}
	fr.vals[x] = tval{t: callTerm}
	return true
}

func (ti *TermInterp) WritesParam(fn *ssa.Function, i int) bool { return ti.writesParam(fn, i) }
func (ti *TermInterp) ReadsParam(fn *ssa.Function, i int) bool  { return ti.readsParam(fn, i) }

// ---- patterns ------------------------------------------------------------------------------

// ParseTerm parses "op(arg,arg)" syntax. Leaves starting with '$' are pattern
// variables, "_" is a wildcard.
func ParseTerm(s string) (*Term, error) {
	p := &termParser{s: s}
	t, err := p.parse()
	if err != nil {
		return nil, err
	}
	p.skip()
	if p.i != len(p.s) {
		return nil, fmt.Errorf("trailing input at %d in %q", p.i, s)
	}
	return t, nil
}

func MustParseTerm(s string) *Term {
	t, err := ParseTerm(s)
	if err != nil {
		panic(err)
	}
	return t
}

type termParser struct {
	s string
	i int
}

func (p *termParser) skip() {
	for p.i < len(p.s) && (p.s[p.i] == ' ' || p.s[p.i] == '\n' || p.s[p.i] == '\t') {
		p.i++
	}
}

func (p *termParser) parse() (*Term, error) {
	p.skip()
	start := p.i
	depthBr := 0
	for p.i < len(p.s) {
		c := p.s[p.i]
		if c == '[' {
			depthBr++
		}
		if c == ']' {
			depthBr--
		}
		if depthBr == 0 && (c == '(' || c == ',' || c == ')') {
			// "(*T).M" style names contain parentheses: a '(' immediately followed by '*' belongs to the name
			if c == '(' && (p.i == start || (p.i+1 < len(p.s) && p.s[p.i+1] == '*')) {
				// consume up to the matching ')'
				for p.i < len(p.s) && p.s[p.i] != ')' {
					p.i++
				}
				p.i++
				continue
			}
			break
		}
		p.i++
	}
	name := strings.TrimSpace(p.s[start:p.i])
	if name == "" {
		return nil, fmt.Errorf("empty name at %d in %q", start, p.s)
	}
	t := &Term{Op: name}
	if p.i < len(p.s) && p.s[p.i] == '(' {
		p.i++
		for {
			p.skip()
			if p.i < len(p.s) && p.s[p.i] == ')' {
				p.i++
				break
			}
			a, err := p.parse()
			if err != nil {
				return nil, err
			}
			t.Args = append(t.Args, a)
			p.skip()
			if p.i < len(p.s) && p.s[p.i] == ',' {
				p.i++
				continue
			}
			if p.i < len(p.s) && p.s[p.i] == ')' {
				p.i++
				break
			}
			return nil, fmt.Errorf("expected , or ) at %d in %q", p.i, p.s)
		}
	}
	return t, nil
}

// MatchTerm matches pattern against t, binding $variables consistently.
func MatchTerm(pat, t *Term, binds map[string]*Term) bool {
	if pat.Op == "_" && len(pat.Args) == 0 {
		return true
	}
	if strings.HasPrefix(pat.Op, "$") && len(pat.Args) == 0 {
		if b, ok := binds[pat.Op]; ok {
			return b.String() == t.String()
		}
		binds[pat.Op] = t
		return true
	}
	if pat.Op != t.Op || len(pat.Args) != len(t.Args) {
		return false
	}
	for i := range pat.Args {
		if !MatchTerm(pat.Args[i], t.Args[i], binds) {
			return false
		}
	}
	return true
}

// Subst instantiates pattern variables.
func Subst(pat *Term, binds map[string]*Term) *Term {
	if strings.HasPrefix(pat.Op, "$") && len(pat.Args) == 0 {
		if b, ok := binds[pat.Op]; ok {
			return b
		}
		return pat
	}
	n := &Term{Op: pat.Op}
	for _, a := range pat.Args {
		n.Args = append(n.Args, Subst(a, binds))
	}
	return n
}

// FindSub returns the first subterm of t matching pat (pre-order).
func FindSub(pat, t *Term, binds map[string]*Term) *Term {
	var found *Term
	t.Walk(func(s *Term) {
		if found != nil {
			return
		}
		b := map[string]*Term{}
		for k, v := range binds {
			b[k] = v
		}
		if MatchTerm(pat, s, b) {
			found = s
			for k, v := range b {
				binds[k] = v
			}
		}
	})
	return found
}

// HasCond reports whether the path condition contains the given term (modulo commutativity) with the given polarity.
func (pr *PathResult) HasCond(t *Term, negated bool, comm map[string]bool) bool {
	// stored conditions are in the normal form of normCondTerm; so is the query (operands first made
	// canonical for the commutative operators, so that both sides order == / != the same way)
	t, negated = normCondTerm(NormalizeComm(t, comm), negated)
	want := NormalizeComm(t, comm).String()
	for i, c := range pr.CondT {
		nc, nn := normCondTerm(NormalizeComm(c, comm), pr.CondNeg[i])
		if nn == negated && NormalizeComm(nc, comm).String() == want {
			return true
		}
	}
	return false
}

// FlattenStream turns the term of a stream object (hasher, buffer) into the sequence of
// items written to it since its creation / last reset. Loops appear as one item
// loop(item, item, ...). The first return value is the stream's origin (constructor call, "reset", input).
func FlattenStream(t *Term) (*Term, []*Term) {
	switch {
	case t.Op == "write" && len(t.Args) >= 2:
		base, items := FlattenStream(t.Args[0])
		return base, append(items, t.Args[1:]...)
	case t.Op == "loop" && len(t.Args) == 2:
		base, pre := FlattenStream(t.Args[0])
		_, after := FlattenStream(t.Args[1])
		var body []*Term
		if len(after) >= len(pre) {
			body = after[len(pre):]
		} else {
			body = after
		}
		return base, append(append([]*Term{}, pre...), T("loop", body...))
	}
	return t, nil
}

// LoopBody: blocks of the natural loop headed by h (nil when h is not a loop header).
func LoopBody(h *ssa.BasicBlock) map[*ssa.BasicBlock]bool { return loopBody(h) }

package an

import (
	"fmt"
	"go/constant"
	"go/token"
	"go/types"
	"sort"
	"strings"

	"golang.org/x/tools/go/ssa"
)

// PEnv fixes some SSA values to constants for a partial evaluation of guards.
type PEnv map[ssa.Value]constant.Value

// PEval evaluates v under env when v depends only on fixed values and constants
// (comparisons, arithmetic, bit operations, conversions, boolean negation).
// Guards are evaluated, handlers are not executed.
func PEval(v ssa.Value, env PEnv) (constant.Value, bool) {
	return peval(v, env, 0)
}

func peval(v ssa.Value, env PEnv, depth int) (constant.Value, bool) {
	if depth > 30 {
		return nil, false
	}
	if c, ok := env[v]; ok {
		return c, true
	}
	switch x := v.(type) {
	case *ssa.Const:
		if x.Value == nil {
			return nil, false
		}
		return x.Value, true
	case *ssa.Convert:
		return peval(x.X, env, depth+1)
	case *ssa.ChangeType:
		return peval(x.X, env, depth+1)
	case *ssa.UnOp:
		if x.Op == token.NOT {
			if c, ok := peval(x.X, env, depth+1); ok && c.Kind() == constant.Bool {
				return constant.MakeBool(!constant.BoolVal(c)), true
			}
		}
		if x.Op == token.SUB {
			if c, ok := peval(x.X, env, depth+1); ok && c.Kind() == constant.Int {
				return constant.UnaryOp(token.SUB, c, 0), true
			}
		}
	case *ssa.BinOp:
		a, ok1 := peval(x.X, env, depth+1)
		b, ok2 := peval(x.Y, env, depth+1)
		if !ok1 || !ok2 {
			return nil, false
		}
		switch x.Op {
		case token.EQL, token.NEQ, token.LSS, token.LEQ, token.GTR, token.GEQ:
			if a.Kind() == constant.Bool && b.Kind() == constant.Bool {
				eq := constant.BoolVal(a) == constant.BoolVal(b)
				if x.Op == token.EQL {
					return constant.MakeBool(eq), true
				}
				if x.Op == token.NEQ {
					return constant.MakeBool(!eq), true
				}
				return nil, false
			}
			if a.Kind() != constant.Int || b.Kind() != constant.Int {
				return nil, false
			}
			return constant.MakeBool(constant.Compare(a, x.Op, b)), true
		case token.ADD, token.SUB, token.MUL, token.AND, token.OR, token.XOR, token.AND_NOT:
			if a.Kind() != constant.Int || b.Kind() != constant.Int {
				return nil, false
			}
			return constant.BinaryOp(a, x.Op, b), true
		case token.QUO, token.REM:
			if a.Kind() != constant.Int || b.Kind() != constant.Int || constant.Sign(b) == 0 {
				return nil, false
			}
			if x.Op == token.QUO {
				return constant.BinaryOp(a, token.QUO_ASSIGN, b), true // truncated integer division
			}
			return constant.BinaryOp(a, token.REM, b), true
		case token.SHL, token.SHR:
			if a.Kind() != constant.Int || b.Kind() != constant.Int {
				return nil, false
			}
			s, ok := constant.Uint64Val(b)
			if !ok || s > 63 {
				return nil, false
			}
			return constant.Shift(a, x.Op, uint(s)), true
		}
	case *ssa.Phi:
		// short-circuit forms: an incoming edge whose source block branches away under env is infeasible
		var res constant.Value
		blk := x.Block()
		for i, e := range x.Edges {
			if i < len(blk.Preds) {
				pr := blk.Preds[i]
				if iff, ok := pr.Instrs[len(pr.Instrs)-1].(*ssa.If); ok && len(pr.Succs) == 2 && pr.Succs[0] != pr.Succs[1] {
					if c, ok := peval(iff.Cond, env, depth+1); ok && c.Kind() == constant.Bool {
						taken := pr.Succs[1]
						if constant.BoolVal(c) {
							taken = pr.Succs[0]
						}
						if taken != blk {
							continue
						}
					}
				}
			}
			// an edge whose source block lies behind a branch decided the other way is infeasible too
			// (looked up at most three dominators, for the boolean phis of && / || chains only)
			if i < len(blk.Preds) && depth < 6 {
				dead := false
				cur := blk.Preds[i]
				for lvl := 0; lvl < 3 && !dead; lvl++ {
					d := cur.Idom()
					if d == nil {
						break
					}
					if iff, ok := d.Instrs[len(d.Instrs)-1].(*ssa.If); ok && len(d.Succs) == 2 && d.Succs[0] != d.Succs[1] {
						for si, sc := range d.Succs {
							if sc == cur && len(cur.Preds) == 1 {
								if c, ok := peval(iff.Cond, env, depth+8); ok && c.Kind() == constant.Bool && constant.BoolVal(c) != (si == 0) {
									dead = true
								}
							}
						}
					}
					cur = d
				}
				if dead {
					continue
				}
			}
			c, ok := peval(e, env, depth+1)
			if !ok {
				return nil, false
			}
			if res == nil {
				res = c
			} else if !constant.Compare(res, token.EQL, c) {
				return nil, false
			}
		}
		if res != nil {
			return res, true
		}
	}
	return nil, false
}

// PReach returns the blocks reachable from start when branches whose condition
// evaluates under env are followed only along the decided edge. Phi nodes are
// resolved along each path from the edge taken (path-sensitive in the values of
// the phis only). Blocks for which stop returns true are included but not expanded.
func PReach(start *ssa.BasicBlock, env PEnv, stop func(*ssa.BasicBlock) bool) map[*ssa.BasicBlock]bool {
	reach, _ := PReachRet(start, env, stop)
	return reach
}

type pstate struct {
	b   *ssa.BasicBlock
	phi map[ssa.Value]constant.Value
}

func (st pstate) key() string {
	var ks []string
	for v, c := range st.phi {
		ks = append(ks, v.Name()+"="+c.String())
	}
	sort.Strings(ks)
	return fmt.Sprintf("%d|%s", st.b.Index, strings.Join(ks, ","))
}

// PReachRet also returns, for every reached Return, the set of evaluated first results ("?" when not constant).
func PReachRet(start *ssa.BasicBlock, env PEnv, stop func(*ssa.BasicBlock) bool) (map[*ssa.BasicBlock]bool, map[string]bool) {
	seen := map[*ssa.BasicBlock]bool{}
	rets := map[string]bool{}
	seenSt := map[string]bool{}
	var work []pstate
	push := func(from pstate, to *ssa.BasicBlock) {
		// resolve to's phis from the edge
		nphi := map[ssa.Value]constant.Value{}
		for k, v := range from.phi {
			if ph, ok := k.(*ssa.Phi); ok && !ph.Block().Dominates(to) {
				continue // not usable in (or after) the target block: forget it
			}
			nphi[k] = v
		}
		full := PEnv{}
		for k, v := range env {
			full[k] = v
		}
		for k, v := range from.phi {
			full[k] = v
		}
		pi := -1
		for i, pr := range to.Preds {
			if pr == from.b {
				pi = i
			}
		}
		vals := map[ssa.Value]constant.Value{}
		for _, ins := range to.Instrs {
			ph, ok := ins.(*ssa.Phi)
			if !ok {
				break
			}
			delete(nphi, ph)
			if pi >= 0 && isBoolType(ph.Type()) { // only boolean phis (the && / || forms): finitely many states
				if c, ok := PEval(ph.Edges[pi], full); ok {
					vals[ph] = c
				}
			}
		}
		for k, v := range vals {
			nphi[k] = v
		}
		st := pstate{to, nphi}
		k := st.key()
		if !seenSt[k] {
			seenSt[k] = true
			seen[to] = true
			work = append(work, st)
		}
	}
	st0 := pstate{start, map[ssa.Value]constant.Value{}}
	seen[start] = true
	seenSt[st0.key()] = true
	work = append(work, st0)
	for len(work) > 0 {
		st := work[len(work)-1]
		work = work[:len(work)-1]
		b := st.b
		if stop != nil && b != start && stop(b) {
			continue
		}
		full := PEnv{}
		for k, v := range env {
			full[k] = v
		}
		for k, v := range st.phi {
			full[k] = v
		}
		switch last := b.Instrs[len(b.Instrs)-1].(type) {
		case *ssa.If:
			if c, ok := PEval(last.Cond, full); ok && c.Kind() == constant.Bool && len(b.Succs) == 2 {
				if constant.BoolVal(c) {
					push(st, b.Succs[0])
				} else {
					push(st, b.Succs[1])
				}
				continue
			}
		case *ssa.Return:
			if len(last.Results) > 0 {
				if c, ok := PEval(last.Results[0], full); ok {
					rets[c.String()] = true
				} else {
					rets["?"] = true
				}
			}
		}
		for _, s := range b.Succs {
			push(st, s)
		}
	}
	return seen, rets
}

func isBoolType(t types.Type) bool {
	b, ok := t.Underlying().(*types.Basic)
	return ok && b.Info()&types.IsBoolean != 0
}

// PWalk explores like PReach but carries an accumulator (a small comparable
// abstract state) updated by step for every instruction; it returns, for each
// block where stop holds, the accumulator values on arrival. limit bounds the
// number of distinct states (exceeded -> ok=false).
func PWalk[A comparable](start *ssa.BasicBlock, env PEnv, init A, stop func(*ssa.BasicBlock) bool, step func(A, ssa.Instruction) A, limit int) (map[*ssa.BasicBlock]map[A]bool, bool) {
	type state struct {
		st  pstate
		acc A
	}
	out := map[*ssa.BasicBlock]map[A]bool{}
	seen := map[string]bool{}
	var work []state
	add := func(s state) {
		k := s.st.key() + fmt.Sprintf("|%v", s.acc)
		if !seen[k] {
			seen[k] = true
			work = append(work, s)
		}
	}
	add(state{pstate{start, map[ssa.Value]constant.Value{}}, init})
	for len(work) > 0 {
		if len(seen) > limit {
			return out, false
		}
		s := work[len(work)-1]
		work = work[:len(work)-1]
		b := s.st.b
		if stop != nil && b != start && stop(b) {
			if out[b] == nil {
				out[b] = map[A]bool{}
			}
			out[b][s.acc] = true
			continue
		}
		acc := s.acc
		for _, ins := range b.Instrs {
			acc = step(acc, ins)
		}
		full := PEnv{}
		for k, v := range env {
			full[k] = v
		}
		for k, v := range s.st.phi {
			full[k] = v
		}
		next := b.Succs
		if iff, ok := b.Instrs[len(b.Instrs)-1].(*ssa.If); ok && len(b.Succs) == 2 {
			if c, ok := PEval(iff.Cond, full); ok && c.Kind() == constant.Bool {
				if constant.BoolVal(c) {
					next = b.Succs[:1]
				} else {
					next = b.Succs[1:]
				}
			}
		}
		for _, to := range next {
			nphi := map[ssa.Value]constant.Value{}
			for k, v := range s.st.phi {
				if ph, ok := k.(*ssa.Phi); ok && !ph.Block().Dominates(to) {
					continue
				}
				nphi[k] = v
			}
			pi := -1
			for i, pr := range to.Preds {
				if pr == b {
					pi = i
				}
			}
			vals := map[ssa.Value]constant.Value{}
			for _, ins := range to.Instrs {
				ph, ok := ins.(*ssa.Phi)
				if !ok {
					break
				}
				delete(nphi, ph)
				if pi >= 0 && isBoolType(ph.Type()) {
					if c, ok := PEval(ph.Edges[pi], full); ok {
						vals[ph] = c
					}
				}
			}
			for k, v := range vals {
				nphi[k] = v
			}
			add(state{pstate{to, nphi}, acc})
		}
	}
	return out, true
}

// Package an: analysis helpers shared by the property rule tables.
package an

import (
	"fmt"
	"go/ast"
	"go/constant"
	"go/token"
	"go/types"
	"math/big"

	"golang.org/x/tools/go/packages"
)

// Lit is a composite literal read from the syntax tree (never executed).
type Lit struct {
	Pos    token.Pos
	Const  constant.Value  // for basic constants
	Elems  []*Lit          // arrays / slices (positional; index keys honoured)
	Fields map[string]*Lit // structs
	Type   types.Type
}

// ReadLit evaluates a literal expression using the package's type info.
func ReadLit(pk *packages.Package, e ast.Expr) (*Lit, error) {
	e = ast.Unparen(e)
	tv, ok := pk.TypesInfo.Types[e]
	if ok && tv.Value != nil {
		return &Lit{Pos: e.Pos(), Const: tv.Value, Type: tv.Type}, nil
	}
	switch x := e.(type) {
	case *ast.CompositeLit:
		var t types.Type
		if ok {
			t = tv.Type
		}
		if t == nil {
			return nil, fmt.Errorf("untyped composite literal")
		}
		l := &Lit{Pos: e.Pos(), Type: t}
		switch u := t.Underlying().(type) {
		case *types.Struct:
			l.Fields = map[string]*Lit{}
			for i, el := range x.Elts {
				if kv, ok := el.(*ast.KeyValueExpr); ok {
					sub, err := ReadLit(pk, kv.Value)
					if err != nil {
						return nil, err
					}
					l.Fields[kv.Key.(*ast.Ident).Name] = sub
				} else {
					sub, err := ReadLit(pk, el)
					if err != nil {
						return nil, err
					}
					l.Fields[u.Field(i).Name()] = sub
				}
			}
		case *types.Array, *types.Slice:
			idx := 0
			for _, el := range x.Elts {
				v := el
				if kv, ok := el.(*ast.KeyValueExpr); ok {
					ktv := pk.TypesInfo.Types[kv.Key]
					if ktv.Value == nil {
						return nil, fmt.Errorf("non-constant index")
					}
					k, _ := constant.Int64Val(ktv.Value)
					idx = int(k)
					v = kv.Value
				}
				sub, err := ReadLit(pk, v)
				if err != nil {
					return nil, err
				}
				for len(l.Elems) <= idx {
					l.Elems = append(l.Elems, nil)
				}
				l.Elems[idx] = sub
				idx++
			}
			if a, ok := u.(*types.Array); ok {
				for int64(len(l.Elems)) < a.Len() {
					l.Elems = append(l.Elems, nil)
				}
			}
		default:
			return nil, fmt.Errorf("unsupported composite literal type %s", t)
		}
		return l, nil
	case *ast.UnaryExpr:
		if x.Op == token.AND {
			return ReadLit(pk, x.X)
		}
	case *ast.CallExpr:
		// conversion of a literal, e.g. []byte("...") handled by const; T(lit)
		if len(x.Args) == 1 {
			if ftv, ok := pk.TypesInfo.Types[x.Fun]; ok && ftv.IsType() {
				return ReadLit(pk, x.Args[0])
			}
		}
	}
	return nil, fmt.Errorf("not a literal: %T", e)
}

// Big returns the integer value of a constant literal (nil literal = 0).
func (l *Lit) Big() *big.Int {
	if l == nil || l.Const == nil {
		return new(big.Int)
	}
	v := constant.ToInt(l.Const)
	if v.Kind() != constant.Int {
		return new(big.Int)
	}
	if i, ok := constant.Int64Val(v); ok {
		return big.NewInt(i)
	}
	b, _ := new(big.Int).SetString(v.ExactString(), 10)
	return b
}

// Str returns the string value of a constant literal.
func (l *Lit) Str() string {
	if l == nil || l.Const == nil || l.Const.Kind() != constant.String {
		return ""
	}
	return constant.StringVal(l.Const)
}

// PkgVarInit finds the initialiser expression of a package-level variable.
func PkgVarInit(pk *packages.Package, name string) (ast.Expr, token.Pos) {
	for _, f := range pk.Syntax {
		for _, d := range f.Decls {
			gd, ok := d.(*ast.GenDecl)
			if !ok || gd.Tok != token.VAR {
				continue
			}
			for _, s := range gd.Specs {
				vs := s.(*ast.ValueSpec)
				for i, n := range vs.Names {
					if n.Name == name && i < len(vs.Values) {
						return vs.Values[i], n.Pos()
					}
				}
			}
		}
	}
	return nil, token.NoPos
}

// PkgConst returns the value of a package-level constant.
func PkgConst(pk *packages.Package, name string) constant.Value {
	o := pk.Types.Scope().Lookup(name)
	if c, ok := o.(*types.Const); ok {
		return c.Val()
	}
	return nil
}

// ConstInt64 returns the int64 value of a named package constant.
func ConstInt64(pk *packages.Package, name string) (int64, bool) {
	v := PkgConst(pk, name)
	if v == nil {
		return 0, false
	}
	v = constant.ToInt(v)
	if v.Kind() != constant.Int {
		return 0, false
	}
	return constant.Int64Val(v)
}

func ConstBig(pk *packages.Package, name string) *big.Int {
	v := PkgConst(pk, name)
	if v == nil {
		return nil
	}
	v = constant.ToInt(v)
	if v.Kind() != constant.Int {
		return nil
	}
	b, _ := new(big.Int).SetString(v.ExactString(), 10)
	return b
}

// ConstOfValue converts a go/constant integer value to int64.
func ConstOfValue(v constant.Value) (int64, bool) {
	v = constant.ToInt(v)
	if v.Kind() != constant.Int {
		return 0, false
	}
	return constant.Int64Val(v)
}

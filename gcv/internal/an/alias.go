package an

// Alias-safety of in-place group operations: a function that receives an
// output record and input records of the same type may be called with the
// output aliasing an input (r.Add(r, &x)). It is alias-safe if no coordinate of
// an input is read after the same coordinate of the output was written.

import (
	"fmt"
	"go/constant"
	"go/token"
	"go/types"
	"sort"

	"gcv/internal/core"

	"golang.org/x/tools/go/ssa"
)

// fieldRW: for a function, which of its pointer-to-T parameters are read / written (T's content).
type fieldRW struct {
	reads, writes map[int]bool
}

type AliasChecker struct {
	Prog   *core.Program
	Elem   *types.Named // the coordinate type (Field)
	sums   map[*ssa.Function]*fieldRW
	busy   map[*ssa.Function]bool
	recSum map[*ssa.Function]map[int]map[string][2]bool // param -> coordinate -> (read, written)
	// ValuePreserving: element operations whose in-place write does not change the value
	// represented (normalisation): their writes are not "output writes" for this rule
	ValuePreserving map[string]bool
	// Flags: names of further (non-coordinate) fields of the record that are part of its value
	// (the point-at-infinity flag): tracked like coordinates for direct loads, stores and whole-record copies
	Flags map[string]bool
}

func NewAliasChecker(p *core.Program, elem *types.Named) *AliasChecker {
	return &AliasChecker{Prog: p, Elem: elem, sums: map[*ssa.Function]*fieldRW{}, busy: map[*ssa.Function]bool{}, recSum: map[*ssa.Function]map[int]map[string][2]bool{}}
}

func (ac *AliasChecker) isElemPtr(t types.Type) bool {
	p, ok := t.Underlying().(*types.Pointer)
	return ok && types.Identical(p.Elem(), ac.Elem)
}

// paramRoot: is v (an address) derived from parameter p by field/index steps only? returns the parameter index.
func paramRoot(fn *ssa.Function, v ssa.Value) (int, bool) {
	for i := 0; i < 10; i++ {
		switch x := v.(type) {
		case *ssa.Parameter:
			for i, p := range fn.Params {
				if p == x {
					return i, true
				}
			}
			return 0, false
		case *ssa.FieldAddr:
			v = x.X
		case *ssa.IndexAddr:
			v = x.X
		case *ssa.UnOp:
			// spilled parameter: load of a local cell with a single store of the parameter
			if x.Op != token.MUL {
				return 0, false
			}
			a, ok := x.X.(*ssa.Alloc)
			if !ok {
				return 0, false
			}
			var sv ssa.Value
			n := 0
			for _, r := range *a.Referrers() {
				if st, ok := r.(*ssa.Store); ok && st.Addr == ssa.Value(a) {
					sv = st.Val
					n++
				}
			}
			if n != 1 {
				return 0, false
			}
			v = sv
		default:
			return 0, false
		}
	}
	return 0, false
}

// elemSummary: which Field-pointer parameters of a function on the coordinate type are read/written.
func (ac *AliasChecker) elemSummary(fn *ssa.Function) *fieldRW {
	if s, ok := ac.sums[fn]; ok {
		return s
	}
	s := &fieldRW{reads: map[int]bool{}, writes: map[int]bool{}}
	if fn == nil || fn.Blocks == nil || ac.busy[fn] {
		return s
	}
	ac.busy[fn] = true
	Instrs(fn, func(i ssa.Instruction) {
		switch x := i.(type) {
		case *ssa.UnOp:
			if x.Op == token.MUL {
				if pi, ok := paramRoot(fn, x.X); ok && ac.isElemPtr(fn.Params[pi].Type()) {
					s.reads[pi] = true
				}
			}
		case *ssa.Store:
			if pi, ok := paramRoot(fn, x.Addr); ok && ac.isElemPtr(fn.Params[pi].Type()) {
				s.writes[pi] = true
			}
		case ssa.CallInstruction:
			cal := StaticCallee(x)
			if cal == nil || !core.InModule(cal) {
				return
			}
			cs := ac.elemSummary(cal)
			for ai, a := range x.Common().Args {
				if pi, ok := paramRoot(fn, a); ok && ac.isElemPtr(fn.Params[pi].Type()) {
					if _, direct := a.(*ssa.Parameter); direct || isSpill(a) {
						if cs.reads[ai] {
							s.reads[pi] = true
						}
						if cs.writes[ai] {
							s.writes[pi] = true
						}
					}
				}
			}
		}
	})
	delete(ac.busy, fn)
	ac.sums[fn] = s
	return s
}

func isSpill(v ssa.Value) bool {
	u, ok := v.(*ssa.UnOp)
	if !ok || u.Op != token.MUL {
		return false
	}
	_, ok = u.X.(*ssa.Alloc)
	return ok
}

// AliasEvent: one read or write of a coordinate of a record parameter.
type AliasEvent struct {
	Instr ssa.Instruction
	Param int
	Coord string
	Write bool
}

// coordOf: address v = &param.Coord (Coord of the element type) -> (param index, coord)
func (ac *AliasChecker) coordOf(fn *ssa.Function, v ssa.Value) (int, string, bool) {
	fa, ok := v.(*ssa.FieldAddr)
	if !ok {
		return 0, "", false
	}
	st, ok := Deref(fa.X.Type()).Underlying().(*types.Struct)
	if !ok {
		return 0, "", false
	}
	f := st.Field(fa.Field)
	if !types.Identical(f.Type(), ac.Elem) && !ac.Flags[f.Name()] {
		return 0, "", false
	}
	pi, ok := paramRoot(fn, fa.X)
	if !ok {
		return 0, "", false
	}
	// must be directly the parameter (not a deeper path)
	return pi, f.Name(), true
}

func (ac *AliasChecker) coords(t types.Type) []string {
	st, ok := Deref(t).Underlying().(*types.Struct)
	if !ok {
		return nil
	}
	var out []string
	for i := 0; i < st.NumFields(); i++ {
		if types.Identical(st.Field(i).Type(), ac.Elem) || ac.Flags[st.Field(i).Name()] {
			out = append(out, st.Field(i).Name())
		}
	}
	return out
}

// recordSummary: for record-pointer parameters: which coordinates are read / written (transitively).
func (ac *AliasChecker) recordSummary(fn *ssa.Function) map[int]map[string][2]bool {
	if s, ok := ac.recSum[fn]; ok {
		return s
	}
	s := map[int]map[string][2]bool{}
	ac.recSum[fn] = s
	if fn == nil || fn.Blocks == nil {
		return s
	}
	for _, ev := range ac.Events(fn) {
		m := s[ev.Param]
		if m == nil {
			m = map[string][2]bool{}
			s[ev.Param] = m
		}
		v := m[ev.Coord]
		if ev.Write {
			v[1] = true
		} else {
			v[0] = true
		}
		m[ev.Coord] = v
	}
	return s
}

// Events lists coordinate reads and writes of fn's record parameters, in instruction order per block.
func (ac *AliasChecker) Events(fn *ssa.Function) []AliasEvent {
	var out []AliasEvent
	for _, b := range fn.Blocks {
		for _, ins := range b.Instrs {
			switch x := ins.(type) {
			case *ssa.UnOp:
				if x.Op != token.MUL {
					continue
				}
				if pi, c, ok := ac.coordOf(fn, x.X); ok {
					out = append(out, AliasEvent{ins, pi, c, false})
					continue
				}
				// whole-record load *p
				if pi, ok := paramRoot(fn, x.X); ok {
					if _, isParamPtr := x.X.(*ssa.Parameter); isParamPtr || isSpill(x.X) {
						for _, c := range ac.coords(fn.Params[pi].Type()) {
							out = append(out, AliasEvent{ins, pi, c, false})
						}
					}
				}
			case *ssa.Store:
				if pi, c, ok := ac.coordOf(fn, x.Addr); ok {
					out = append(out, AliasEvent{ins, pi, c, true})
					continue
				}
				if pi, ok := paramRoot(fn, x.Addr); ok {
					if _, isParamPtr := x.Addr.(*ssa.Parameter); isParamPtr || isSpill(x.Addr) {
						for _, c := range ac.coords(fn.Params[pi].Type()) {
							out = append(out, AliasEvent{ins, pi, c, true})
						}
					}
				}
			case ssa.CallInstruction:
				cal := StaticCallee(x)
				if cal == nil || !core.InModule(cal) {
					continue
				}
				es := ac.elemSummary(cal)
				if ac.ValuePreserving[core.FuncName(cal)] {
					es = &fieldRW{reads: es.reads, writes: map[int]bool{}}
				}
				var rs map[int]map[string][2]bool
				for ai, a := range x.Common().Args {
					// &param.Coord passed to an element operation
					if pi, c, ok := ac.coordOf(fn, a); ok {
						if es.reads[ai] {
							out = append(out, AliasEvent{ins, pi, c, false})
						}
						if es.writes[ai] {
							out = append(out, AliasEvent{ins, pi, c, true})
						}
						continue
					}
					// the record parameter itself passed on
					if pi, ok := paramRoot(fn, a); ok {
						if _, isParamPtr := a.(*ssa.Parameter); isParamPtr || isSpill(a) {
							if rs == nil {
								rs = ac.recordSummary(cal)
							}
							cs := rs[ai]
							var names []string
							for c := range cs {
								names = append(names, c)
							}
							sort.Strings(names)
							for _, c := range names {
								if cs[c][0] {
									out = append(out, AliasEvent{ins, pi, c, false})
								}
								if cs[c][1] {
									out = append(out, AliasEvent{ins, pi, c, true})
								}
							}
						}
					}
				}
			}
		}
	}
	return out
}

type AliasProblem struct {
	Write, Read AliasEvent
	What        string
}

// Check reports, for every pair (output parameter, input parameter) of identical pointer
// type, a read of in.C that can happen after a write of out.C.
func (ac *AliasChecker) Check(fn *ssa.Function) (pairs int, problems []AliasProblem) {
	evs := ac.Events(fn)
	written := map[int]bool{}
	for _, e := range evs {
		if e.Write {
			written[e.Param] = true
		}
	}
	pos := map[ssa.Instruction]int{}
	for _, b := range fn.Blocks {
		for i, ins := range b.Instrs {
			pos[ins] = i
		}
	}
	after := func(w, r ssa.Instruction) bool {
		if w.Block() == r.Block() {
			if pos[r] > pos[w] {
				return true
			}
			// same block, earlier: only via a cycle
			return reachAvoid2(w.Block(), r.Block(), nil)
		}
		return reachAvoid2(w.Block(), r.Block(), nil)
	}
	for out := range written {
		for in := range fn.Params {
			if in == out || !types.Identical(fn.Params[in].Type(), fn.Params[out].Type()) {
				continue
			}
			pairs++
			for _, w := range evs {
				if !w.Write || w.Param != out {
					continue
				}
				for _, r := range evs {
					if r.Write || r.Param != in || r.Coord != w.Coord {
						continue
					}
					if r.Instr == w.Instr {
						continue // one operation reads its operands before it writes (checked at the element level)
					}
					if ac.Flags[w.Coord] && flagPreserved(w.Instr, in, w.Coord) {
						continue // the stored constant is the value the input's flag is known to have here
					}
					if after(w.Instr, r.Instr) {
						problems = append(problems, AliasProblem{w, r, fmt.Sprintf("%s.%s is read at %s after %s.%s was written at %s: wrong result when %s aliases %s",
							fn.Params[in].Name(), r.Coord, ac.Prog.Pos(InstrPos(r.Instr)), fn.Params[out].Name(), w.Coord, ac.Prog.Pos(InstrPos(w.Instr)), fn.Params[out].Name(), fn.Params[in].Name())})
					}
				}
			}
		}
	}
	return pairs, problems
}

// flagPreserved: w stores a boolean constant into out.flag at a point where in.flag is known (from a
// dominating branch on "in.flag") to have that same value: when out aliases in nothing changes.
func flagPreserved(w ssa.Instruction, in int, flag string) bool {
	st, ok := w.(*ssa.Store)
	if !ok {
		return false
	}
	k, ok := st.Val.(*ssa.Const)
	if !ok || k.Value == nil || k.Value.Kind() != constant.Bool {
		return false
	}
	return HasCond(DomConds(w.Block()), fmt.Sprintf("param#%d.%s", in, flag), constant.BoolVal(k.Value))
}

// Package ref: reference mathematics and reference tables (the oracle side of
// the checks). Everything here is independent of the analysed repository.
package ref

import "math/big"

// secp256k1 domain parameters (SEC2 v2, section 2.4.1).
var (
	P, _  = new(big.Int).SetString("FFFFFFFFFFFFFFFFFFFFFFFFFFFFFFFFFFFFFFFFFFFFFFFFFFFFFFFEFFFFFC2F", 16)
	N, _  = new(big.Int).SetString("FFFFFFFFFFFFFFFFFFFFFFFFFFFFFFFEBAAEDCE6AF48A03BBFD25E8CD0364141", 16)
	Gx, _ = new(big.Int).SetString("79BE667EF9DCBBAC55A06295CE870B07029BFCDB2DCE28D959F2815B16F81798", 16)
	Gy, _ = new(big.Int).SetString("483ADA7726A3C4655DA4FBFC0E1108A8FD17B448A68554199C47D08FFB10D4B8", 16)
)

// Pt is an affine point; Inf marks the identity.
type Pt struct {
	X, Y *big.Int
	Inf  bool
}

func G() Pt { return Pt{X: new(big.Int).Set(Gx), Y: new(big.Int).Set(Gy)} }

func OnCurve(p Pt) bool {
	if p.Inf {
		return true
	}
	l := new(big.Int).Mul(p.Y, p.Y)
	r := new(big.Int).Mul(p.X, p.X)
	r.Mul(r, p.X).Add(r, big.NewInt(7))
	l.Sub(l, r).Mod(l, P)
	return l.Sign() == 0
}

func Neg(p Pt) Pt {
	if p.Inf {
		return p
	}
	y := new(big.Int).Sub(P, p.Y)
	y.Mod(y, P)
	return Pt{X: p.X, Y: y}
}

// Add is the affine group law (handles identity, doubling, inverse).
func Add(a, b Pt) Pt {
	if a.Inf {
		return b
	}
	if b.Inf {
		return a
	}
	var lam *big.Int
	if a.X.Cmp(b.X) == 0 {
		s := new(big.Int).Add(a.Y, b.Y)
		s.Mod(s, P)
		if s.Sign() == 0 {
			return Pt{Inf: true}
		}
		// doubling: 3x^2 / 2y
		num := new(big.Int).Mul(a.X, a.X)
		num.Mul(num, big.NewInt(3))
		den := new(big.Int).Lsh(a.Y, 1)
		den.ModInverse(den.Mod(den, P), P)
		lam = num.Mul(num, den)
	} else {
		num := new(big.Int).Sub(b.Y, a.Y)
		den := new(big.Int).Sub(b.X, a.X)
		den.ModInverse(den.Mod(den, P), P)
		lam = num.Mul(num, den)
	}
	lam.Mod(lam, P)
	x := new(big.Int).Mul(lam, lam)
	x.Sub(x, a.X).Sub(x, b.X).Mod(x, P)
	y := new(big.Int).Sub(a.X, x)
	y.Mul(y, lam).Sub(y, a.Y).Mod(y, P)
	return Pt{X: x, Y: y}
}

// Mul is double-and-add scalar multiplication with a non-negative scalar.
func Mul(k *big.Int, p Pt) Pt {
	r := Pt{Inf: true}
	for i := k.BitLen() - 1; i >= 0; i-- {
		r = Add(r, r)
		if k.Bit(i) == 1 {
			r = Add(r, p)
		}
	}
	return r
}

func Eq(a, b Pt) bool {
	if a.Inf || b.Inf {
		return a.Inf == b.Inf
	}
	return a.X.Cmp(b.X) == 0 && a.Y.Cmp(b.Y) == 0
}

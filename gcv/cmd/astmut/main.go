// astmut rewrites Go source mechanically in ways that preserve behaviour, to test that the rules of gcv do
// not depend on the form in which a condition or branch is written.  It works on a copy of the repository:
//
//	astmut -dir <tree> -mode swapif|flipcmp|negcmp|tempcond|demorgan [-pkgs ./lib/...,./client,./wallet]
//
// swapif:   if c {A} else {B}            ->  if !(c) {B} else {A}
// flipcmp:  a < b                        ->  b > a          (operands without calls, channel receives or other effects)
// negcmp:   a < b (integers, in an if)   ->  !(a >= b)
// tempcond: if a && b {..}               ->  cX := a && b; if cX {..}   (no init statement; && and || conditions)
// demorgan: if a && b {A} else {B}       ->  if !a || !b {B} else {A}
// if2switch: if a {A} else if b {B} else {C} -> switch { case a: A; case b: B; default: C }   (no unlabeled break inside)
// earlyelse: if c {A; return}; B         ->  if c {A; return} else {B}
// elseflat:  if c {A; return} else {B}   ->  if c {A; return}; B
// renamelocals: every local variable, parameter, receiver and named result x -> xQ
// range2index: for i, v := range s {..}  ->  for i := 0; i < len(s); i++ { v := s[i]; .. }   (s a slice named by an identifier or field, not assigned in the loop)
//
// Only non-test files of the named packages are rewritten; type information decides where a rewrite is safe.
package main

import (
	"bytes"
	"flag"
	"fmt"
	"go/ast"
	"go/format"
	"go/token"
	"go/types"
	"os"
	"strings"

	"golang.org/x/tools/go/ast/astutil"
	"golang.org/x/tools/go/packages"
)

func main() {
	dir := flag.String("dir", "", "tree to rewrite in place")
	mode := flag.String("mode", "swapif", "transformation")
	pkgs := flag.String("pkgs", "./client,./wallet,./lib/...", "package patterns")
	only := flag.String("only", "", "rewrite only files whose path contains this")
	flag.Parse()
	cfg := &packages.Config{Mode: packages.NeedName | packages.NeedFiles | packages.NeedSyntax | packages.NeedTypes | packages.NeedTypesInfo | packages.NeedCompiledGoFiles, Dir: *dir,
		Env: append(os.Environ(), "GOFLAGS=-mod=mod", "GOPROXY=off", "GOSUMDB=off", "GOTOOLCHAIN=local", "GOWORK=off")}
	ps, err := packages.Load(cfg, strings.Split(*pkgs, ",")...)
	if err != nil {
		fmt.Fprintln(os.Stderr, err)
		os.Exit(2)
	}
	total := 0
	for _, p := range ps {
		if len(p.Errors) > 0 || p.TypesInfo == nil {
			continue
		}
		for i, f := range p.Syntax {
			name := p.CompiledGoFiles[i]
			if strings.HasSuffix(name, "_test.go") || !strings.HasSuffix(name, ".go") || (*only != "" && !strings.Contains(name, *only)) {
				continue
			}
			n := rewrite(p, f, *mode)
			if n == 0 {
				continue
			}
			// moved nodes keep their old positions, which confuses the printer's comment placement: keep only
			// the comments above the package clause (build constraints); the analysis does not read comments
			var keep []*ast.CommentGroup
			for _, cg := range f.Comments {
				if cg.End() < f.Package {
					keep = append(keep, cg)
				}
			}
			f.Comments = keep
			var buf bytes.Buffer
			if err := format.Node(&buf, p.Fset, f); err != nil {
				fmt.Fprintln(os.Stderr, name, err)
				continue
			}
			if err := os.WriteFile(name, buf.Bytes(), 0644); err != nil {
				fmt.Fprintln(os.Stderr, err)
			}
			total += n
		}
	}
	fmt.Printf("astmut %s: %d rewrites\n", *mode, total)
}

func pure(info *types.Info, e ast.Expr) bool {
	ok := true
	ast.Inspect(e, func(n ast.Node) bool {
		switch x := n.(type) {
		case *ast.CallExpr:
			// conversions and len/cap are fine
			if tv, has := info.Types[x.Fun]; has && tv.IsType() {
				return true
			}
			if id, isId := x.Fun.(*ast.Ident); isId && (id.Name == "len" || id.Name == "cap") {
				if _, isB := info.Uses[id].(*types.Builtin); isB {
					return true
				}
			}
			ok = false
		case *ast.UnaryExpr:
			if x.Op == token.ARROW {
				ok = false
			}
		case *ast.IndexExpr, *ast.SliceExpr, *ast.StarExpr, *ast.TypeAssertExpr:
			// may panic: reordering two panicking operands changes which panic is seen; keep it simple
			ok = false
		case *ast.BinaryExpr:
			if x.Op == token.QUO || x.Op == token.REM || x.Op == token.SHL || x.Op == token.SHR {
				ok = false
			}
		case *ast.FuncLit:
			ok = false
		}
		return ok
	})
	return ok
}

func isInt(info *types.Info, e ast.Expr) bool {
	t := info.TypeOf(e)
	if t == nil {
		return false
	}
	b, ok := t.Underlying().(*types.Basic)
	return ok && b.Info()&types.IsInteger != 0
}

func isBool(info *types.Info, e ast.Expr) bool {
	t := info.TypeOf(e)
	if t == nil {
		return false
	}
	b, ok := t.Underlying().(*types.Basic)
	return ok && b.Info()&types.IsBoolean != 0
}

var flip = map[token.Token]token.Token{token.LSS: token.GTR, token.GTR: token.LSS, token.LEQ: token.GEQ, token.GEQ: token.LEQ, token.EQL: token.EQL, token.NEQ: token.NEQ}
var negate = map[token.Token]token.Token{token.LSS: token.GEQ, token.GEQ: token.LSS, token.GTR: token.LEQ, token.LEQ: token.GTR, token.EQL: token.NEQ, token.NEQ: token.EQL}

func not(e ast.Expr) ast.Expr {
	if u, ok := e.(*ast.UnaryExpr); ok && u.Op == token.NOT {
		if p, ok := u.X.(*ast.ParenExpr); ok {
			return p.X
		}
		return u.X
	}
	return &ast.UnaryExpr{Op: token.NOT, X: &ast.ParenExpr{X: e}}
}

func rewrite(p *packages.Package, f *ast.File, mode string) int {
	info := p.TypesInfo
	n := 0
	tmp := 0
	if mode == "renamelocals" {
		isLocal := func(o types.Object) bool {
			v, ok := o.(*types.Var)
			if !ok || v.IsField() || v.Pkg() == nil || v.Name() == "_" || v.Name() == "" {
				return false
			}
			return v.Parent() != nil && v.Parent() != v.Pkg().Scope() && v.Parent() != types.Universe
		}
		ast.Inspect(f, func(nd ast.Node) bool {
			id, ok := nd.(*ast.Ident)
			if !ok {
				return true
			}
			o := info.Defs[id]
			if o == nil {
				o = info.Uses[id]
			}
			if o != nil && isLocal(o) {
				id.Name += "Q"
				n++
			}
			return true
		})
		return n
	}
	astutil.Apply(f, nil, func(c *astutil.Cursor) bool {
		switch x := c.Node().(type) {
		case *ast.IfStmt:
			switch mode {
			case "swapif":
				if x.Else == nil {
					return true
				}
				els, isBlock := x.Else.(*ast.BlockStmt)
				if !isBlock {
					els = &ast.BlockStmt{List: []ast.Stmt{x.Else}}
				}
				x.Cond = not(x.Cond)
				x.Body, x.Else = els, x.Body
				n++
			case "demorgan":
				be, ok := x.Cond.(*ast.BinaryExpr)
				if !ok || x.Else == nil || (be.Op != token.LAND && be.Op != token.LOR) {
					return true
				}
				els, isBlock := x.Else.(*ast.BlockStmt)
				if !isBlock {
					els = &ast.BlockStmt{List: []ast.Stmt{x.Else}}
				}
				op := token.LOR
				if be.Op == token.LOR {
					op = token.LAND
				}
				x.Cond = &ast.BinaryExpr{X: not(be.X), Op: op, Y: not(be.Y)}
				x.Body, x.Else = els, x.Body
				n++
			case "negcmp":
				be, ok := x.Cond.(*ast.BinaryExpr)
				if !ok || !isInt(info, be.X) || !isInt(info, be.Y) {
					return true
				}
				if ng, has := negate[be.Op]; has && be.Op != token.EQL && be.Op != token.NEQ {
					x.Cond = &ast.UnaryExpr{Op: token.NOT, X: &ast.ParenExpr{X: &ast.BinaryExpr{X: be.X, Op: ng, Y: be.Y}}}
					n++
				}
			case "if2switch":
				// only the head of a chain, sitting directly in a statement list
				if x.Else == nil || x.Init != nil {
					return true
				}
				if _, inBlock := c.Parent().(*ast.BlockStmt); !inBlock {
					return true
				}
				var clauses []ast.Stmt
				cur := x
				ok := true
				for {
					if cur.Init != nil || hasBareBreak(cur.Body) {
						ok = false
						break
					}
					clauses = append(clauses, &ast.CaseClause{List: []ast.Expr{cur.Cond}, Body: cur.Body.List})
					switch e := cur.Else.(type) {
					case nil:
					case *ast.IfStmt:
						cur = e
						continue
					case *ast.BlockStmt:
						if hasBareBreak(e) {
							ok = false
						}
						clauses = append(clauses, &ast.CaseClause{Body: e.List})
					}
					break
				}
				if !ok || len(clauses) < 2 {
					return true
				}
				c.Replace(&ast.SwitchStmt{Body: &ast.BlockStmt{List: clauses}})
				n++
				return false
			case "negswitch":
				// if c {A} [else {B}]  =>  switch { case !(c): B  default: A }   (go/ssa keeps the negation as an instruction)
				if x.Init != nil || hasBareBreak(x.Body) {
					return true
				}
				if _, inBlock := c.Parent().(*ast.BlockStmt); !inBlock {
					return true
				}
				var elseBody []ast.Stmt
				switch e := x.Else.(type) {
				case nil:
				case *ast.BlockStmt:
					if hasBareBreak(e) {
						return true
					}
					elseBody = e.List
				default:
					return true
				}
				neg := &ast.UnaryExpr{Op: token.NOT, X: &ast.ParenExpr{X: x.Cond}}
				c.Replace(&ast.SwitchStmt{Body: &ast.BlockStmt{List: []ast.Stmt{
					&ast.CaseClause{List: []ast.Expr{neg}, Body: elseBody},
					&ast.CaseClause{Body: x.Body.List},
				}}})
				n++
				return true
			case "earlyelse", "elseflat":
				blk, inBlock := c.Parent().(*ast.BlockStmt)
				if !inBlock || x.Init != nil || len(x.Body.List) == 0 {
					return true
				}
				if !terminates(x.Body.List[len(x.Body.List)-1]) {
					return true
				}
				idx := -1
				for i, st := range blk.List {
					if st == ast.Stmt(x) {
						idx = i
					}
				}
				if idx < 0 {
					return true
				}
				if mode == "earlyelse" {
					if x.Else != nil || idx == len(blk.List)-1 {
						return true
					}
					rest := append([]ast.Stmt{}, blk.List[idx+1:]...)
					// labels, declarations used by goto and fallthrough are left alone
					for _, st := range rest {
						if _, isL := st.(*ast.LabeledStmt); isL {
							return true
						}
					}
					x.Else = &ast.BlockStmt{List: rest}
					blk.List = blk.List[:idx+1]
					n++
					return false
				}
				els, isB := x.Else.(*ast.BlockStmt)
				if !isB || declares(els) && idx != len(blk.List)-1 {
					return true
				}
				x.Else = nil
				tail := append([]ast.Stmt{}, blk.List[idx+1:]...)
				blk.List = append(append(blk.List[:idx+1:idx+1], els.List...), tail...)
				n++
				return false
			case "tempcond":
				be, ok := x.Cond.(*ast.BinaryExpr)
				if !ok || x.Init != nil || (be.Op != token.LAND && be.Op != token.LOR) {
					return true
				}
				// only where the if statement sits directly in a block (not an else-if)
				if _, inBlock := c.Parent().(*ast.BlockStmt); !inBlock {
					return true
				}
				tmp++
				id := ast.NewIdent(fmt.Sprintf("gcvCond%d", tmp))
				as := &ast.AssignStmt{Lhs: []ast.Expr{id}, Tok: token.DEFINE, Rhs: []ast.Expr{x.Cond}}
				x.Cond = ast.NewIdent(id.Name)
				c.InsertBefore(as)
				n++
			}
		case *ast.RangeStmt:
			if mode != "range2index" || x.Tok != token.DEFINE || x.Key == nil {
				return true
			}
			key, okK := x.Key.(*ast.Ident)
			if !okK || key.Name == "_" && x.Value == nil {
				return true
			}
			if _, isSlice := info.TypeOf(x.X).Underlying().(*types.Slice); !isSlice || !simpleRef(x.X) || assigns(x.Body, x.X) || hasCallWith(info, x.Body, x.X) {
				return true
			}
			idx := key
			if key.Name == "_" {
				tmp++
				idx = ast.NewIdent(fmt.Sprintf("gcvIdx%d", tmp))
			}
			body := x.Body
			if x.Value != nil {
				if v, isId := x.Value.(*ast.Ident); !isId || v.Name != "_" {
					body.List = append([]ast.Stmt{&ast.AssignStmt{Lhs: []ast.Expr{x.Value}, Tok: token.DEFINE, Rhs: []ast.Expr{&ast.IndexExpr{X: x.X, Index: ast.NewIdent(idx.Name)}}}}, body.List...)
				}
			}
			c.Replace(&ast.ForStmt{
				Init: &ast.AssignStmt{Lhs: []ast.Expr{ast.NewIdent(idx.Name)}, Tok: token.DEFINE, Rhs: []ast.Expr{&ast.BasicLit{Kind: token.INT, Value: "0"}}},
				Cond: &ast.BinaryExpr{X: ast.NewIdent(idx.Name), Op: token.LSS, Y: &ast.CallExpr{Fun: ast.NewIdent("len"), Args: []ast.Expr{x.X}}},
				Post: &ast.IncDecStmt{X: ast.NewIdent(idx.Name), Tok: token.INC},
				Body: body,
			})
			n++
			return false
		case *ast.BinaryExpr:
			if mode != "flipcmp" {
				return true
			}
			if fl, has := flip[x.Op]; has && pure(info, x.X) && pure(info, x.Y) && !isBool(info, x.X) {
				x.X, x.Y, x.Op = x.Y, x.X, fl
				n++
			}
		}
		return true
	})
	return n
}

// hasBareBreak: an unlabeled break that would refer to the construct enclosing the if chain.
func hasBareBreak(b *ast.BlockStmt) bool {
	found := false
	ast.Inspect(b, func(n ast.Node) bool {
		switch x := n.(type) {
		case *ast.ForStmt, *ast.RangeStmt, *ast.SwitchStmt, *ast.TypeSwitchStmt, *ast.SelectStmt, *ast.FuncLit:
			return false
		case *ast.BranchStmt:
			if x.Tok == token.BREAK && x.Label == nil {
				found = true
			}
		}
		return true
	})
	return found
}

func terminates(st ast.Stmt) bool {
	switch x := st.(type) {
	case *ast.ReturnStmt:
		return true
	case *ast.BranchStmt:
		return x.Tok == token.CONTINUE || x.Tok == token.BREAK || x.Tok == token.GOTO
	case *ast.ExprStmt:
		if c, ok := x.X.(*ast.CallExpr); ok {
			if id, ok := c.Fun.(*ast.Ident); ok && id.Name == "panic" {
				return true
			}
		}
	}
	return false
}

// declares: the block introduces names at its top level (moving its statements out could clash or shadow).
func declares(b *ast.BlockStmt) bool {
	for _, st := range b.List {
		switch x := st.(type) {
		case *ast.DeclStmt:
			return true
		case *ast.AssignStmt:
			if x.Tok == token.DEFINE {
				return true
			}
		case *ast.LabeledStmt:
			return true
		}
	}
	return false
}

func simpleRef(e ast.Expr) bool {
	switch x := e.(type) {
	case *ast.Ident:
		return true
	case *ast.SelectorExpr:
		return simpleRef(x.X)
	}
	return false
}

func exprString(e ast.Expr) string {
	switch x := e.(type) {
	case *ast.Ident:
		return x.Name
	case *ast.SelectorExpr:
		return exprString(x.X) + "." + x.Sel.Name
	}
	return "?"
}

// assigns: the loop body assigns to (or takes the address of, or appends to) the ranged expression or a
// prefix of it - the range statement evaluated it once, the rewritten loop reads it every iteration.
func assigns(b *ast.BlockStmt, target ast.Expr) bool {
	t := exprString(target)
	root := t
	if i := strings.Index(t, "."); i >= 0 {
		root = t[:i]
	}
	found := false
	ast.Inspect(b, func(n ast.Node) bool {
		switch x := n.(type) {
		case *ast.AssignStmt:
			for _, l := range x.Lhs {
				s := exprString(l)
				if s == t || s == root || strings.HasPrefix(t, s+".") {
					found = true
				}
			}
		case *ast.UnaryExpr:
			if x.Op == token.AND {
				s := exprString(x.X)
				if s == t || s == root {
					found = true
				}
			}
		case *ast.FuncLit:
			found = true // captured and possibly changed elsewhere: leave such loops alone
		}
		return !found
	})
	return found
}

// hasCallWith: the body calls something (a method on the owner, or any function when the ranged expression
// is a field or a package variable) that could replace the slice: leave such loops alone unless it is a local.
func hasCallWith(info *types.Info, b *ast.BlockStmt, target ast.Expr) bool {
	if id, isIdent := target.(*ast.Ident); isIdent {
		if v, ok := info.Uses[id].(*types.Var); ok && v.Pkg() != nil && v.Parent() != v.Pkg().Scope() {
			return false // a local or parameter slice header changes only by assignment (checked separately)
		}
	}
	found := false
	ast.Inspect(b, func(n ast.Node) bool {
		if _, ok := n.(*ast.CallExpr); ok {
			found = true
		}
		return !found
	})
	return found
}

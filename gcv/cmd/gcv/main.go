// gcv: static checker for the gocoin properties in /verif/properties.jsonl.
// Usage: gcv -p C04 -tier quick|thorough
//
//	gcv -explain <replay.json>
package main

import (
	"encoding/json"
	"flag"
	"fmt"
	"os"
	"runtime/debug"
	"runtime/pprof"
	"sort"

	"gcv/internal/core"
	"gcv/internal/props"
)

func main() {
	prop := flag.String("p", "", "property id (C01..C20) or 'all'")
	tier := flag.String("tier", "", "quick|thorough (default: $VERIF_TIER or quick)")
	explain := flag.String("explain", "", "replay file: re-run the property and print the matching obligation")
	list := flag.Bool("list", false, "list registered properties")
	flag.Parse()
	if *list {
		var ids []string
		for id := range props.Registry {
			ids = append(ids, id)
		}
		sort.Strings(ids)
		for _, id := range ids {
			fmt.Println(id)
		}
		return
	}
	if *tier == "" {
		*tier = os.Getenv("VERIF_TIER")
	}
	if *tier != "thorough" {
		*tier = "quick"
	}
	if *explain != "" {
		b, err := os.ReadFile(*explain)
		if err != nil {
			fmt.Println(err)
			os.Exit(2)
		}
		var m map[string]interface{}
		json.Unmarshal(b, &m)
		fmt.Printf("replay of %v rule %v instance %v\n  recorded at %v: %v\n  re-running the property on the current tree:\n", m["property"], m["rule"], m["instance"], m["where"], m["detail"])
		*prop, _ = m["property"].(string)
	}
	if pf := os.Getenv("GCV_CPUPROFILE"); pf != "" {
		f, _ := os.Create(pf)
		pprof.StartCPUProfile(f)
		defer pprof.StopCPUProfile()
	}
	fn, ok := props.Registry[*prop]
	if !ok {
		fmt.Fprintf(os.Stderr, "unknown property %q\n", *prop)
		os.Exit(2)
	}
	code := runOne(*prop, *tier, fn)
	pprof.StopCPUProfile()
	os.Exit(code)
}

func runOne(id, tier string, fn props.CheckFunc) (code int) {
	r := core.NewRun(id, tier)
	defer func() {
		if e := recover(); e != nil {
			fmt.Printf("UNDECIDED property=%s checker panic: %v\n%s\n", id, e, debug.Stack())
			code = 2
		}
	}()
	if os.Getenv("GCV_FORCEINLINE") != "" { // debugging aid: decide in the inlined view only
		core.InlineView = true
	}
	fn(r)
	secondView(r, id, tier, fn)
	if tier == "thorough" && os.Getenv("GCV_VARIANT") == "" {
		r.Variants, r.VariantSummary = selfTest(id)
		fmt.Println("thorough:", r.VariantSummary)
		for _, v := range r.Variants {
			if v.Status == "missed" {
				fmt.Println("  variant not detected by this property's rules:", v.Name)
			}
			if v.Status == "false-alarm" {
				fmt.Println("  behaviour-preserving variant reported by this property's rules:", v.Name, v.Rule)
			}
		}
	}
	return r.Finish()
}

// secondView: when the first pass leaves violations, the property is decided once more on the same program
// with single-caller helper functions inlined into their callers (core.InlineView).  Both are the same
// program; a rule that is anchored in one function and does not find a statement there because it sits in a
// helper is satisfied when it finds it in the inlined view.  A violation stands unless the same obligation
// (rule and key) is discharged in the second view; obligations that exist only there are ignored.
func secondView(r *core.Run, id, tier string, fn props.CheckFunc) {
	nviol := 0
	for _, o := range r.Obs {
		if o.Status == "violated" {
			nviol++
		}
	}
	if (nviol == 0 && !r.HasUndecided()) || os.Getenv("GCV_NOINLINE") != "" {
		return
	}
	r2 := core.NewRun(id, tier)
	func() {
		defer func() {
			if e := recover(); e != nil {
				r2 = nil
			}
		}()
		core.InlineView = true
		defer func() { core.InlineView = false }()
		fn(r2)
	}()
	if r2 == nil {
		return
	}
	if r.HasUndecided() {
		if !r2.HasUndecided() {
			r.AdoptSecondView(r2)
		}
		return
	}
	ok2 := map[string]string{}
	bad2 := map[string]bool{}
	for _, o := range r2.Obs {
		k := o.Rule + "|" + o.Key
		if o.Status == "ok" {
			ok2[k] = o.Detail
		} else if o.Status == "violated" {
			bad2[k] = true
		}
	}
	bad1 := map[string]bool{}
	for _, o := range r.Obs {
		if o.Status == "violated" {
			bad1[o.Rule+"|"+o.Key] = true
		}
	}
	seen2 := map[string]bool{}
	okRule2 := map[string]int{}
	newBad2 := map[string]bool{} // rules that have a violation in the second view which the first did not have
	for _, o := range r2.Obs {
		k := o.Rule + "|" + o.Key
		seen2[k] = true
		if o.Status == "ok" {
			okRule2[o.Rule]++
		}
		if o.Status == "violated" && !bad1[k] && !core.IsKnownFinding(id, o.Rule, o.Key) {
			newBad2[o.Rule] = true
		}
	}
	for i := range r.Obs {
		o := &r.Obs[i]
		k := o.Rule + "|" + o.Key
		if o.Status != "violated" || bad2[k] {
			continue
		}
		if d, ok := ok2[k]; ok {
			o.Status = "ok"
			o.Detail = "holds with helper functions inlined into their caller: " + d
			continue
		}
		// the rule gave up early in the first view ("X not found") under a key that does not exist when it
		// runs to completion: accepted when the whole rule is clean in the second view
		if !seen2[k] && !newBad2[o.Rule] && okRule2[o.Rule] > 0 {
			o.Status = "ok"
			o.Detail = "with helper functions inlined into their caller the rule runs to completion without this finding (first view: " + o.Detail + ")"
		}
	}
	r.Count("second_view_runs", 1)
}

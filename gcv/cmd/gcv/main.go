// gcv: static checker for the gocoin properties in /verif/properties.jsonl.
// Usage: gcv -p C04 -tier quick|thorough
//
//	gcv -explain <replay.json>
package main

import (
	"encoding/json"
	"flag"
	"fmt"
	"os"
	"runtime/debug"
	"runtime/pprof"
	"sort"

	"gcv/internal/core"
	"gcv/internal/props"
)

func main() {
	prop := flag.String("p", "", "property id (C01..C20) or 'all'")
	tier := flag.String("tier", "", "quick|thorough (default: $VERIF_TIER or quick)")
	explain := flag.String("explain", "", "replay file: re-run the property and print the matching obligation")
	list := flag.Bool("list", false, "list registered properties")
	flag.Parse()
	if *list {
		var ids []string
		for id := range props.Registry {
			ids = append(ids, id)
		}
		sort.Strings(ids)
		for _, id := range ids {
			fmt.Println(id)
		}
		return
	}
	if *tier == "" {
		*tier = os.Getenv("VERIF_TIER")
	}
	if *tier != "thorough" {
		*tier = "quick"
	}
	if *explain != "" {
		b, err := os.ReadFile(*explain)
		if err != nil {
			fmt.Println(err)
			os.Exit(2)
		}
		var m map[string]interface{}
		json.Unmarshal(b, &m)
		fmt.Printf("replay of %v rule %v instance %v\n  recorded at %v: %v\n  re-running the property on the current tree:\n", m["property"], m["rule"], m["instance"], m["where"], m["detail"])
		*prop, _ = m["property"].(string)
	}
	if pf := os.Getenv("GCV_CPUPROFILE"); pf != "" {
		f, _ := os.Create(pf)
		pprof.StartCPUProfile(f)
		defer pprof.StopCPUProfile()
	}
	fn, ok := props.Registry[*prop]
	if !ok {
		fmt.Fprintf(os.Stderr, "unknown property %q\n", *prop)
		os.Exit(2)
	}
	code := runOne(*prop, *tier, fn)
	pprof.StopCPUProfile()
	os.Exit(code)
}

func runOne(id, tier string, fn props.CheckFunc) (code int) {
	r := core.NewRun(id, tier)
	defer func() {
		if e := recover(); e != nil {
			fmt.Printf("UNDECIDED property=%s checker panic: %v\n%s\n", id, e, debug.Stack())
			code = 2
		}
	}()
	fn(r)
	if tier == "thorough" && os.Getenv("GCV_VARIANT") == "" {
		r.Variants, r.VariantSummary = selfTest(id)
		fmt.Println("thorough:", r.VariantSummary)
		for _, v := range r.Variants {
			if v.Status == "missed" {
				fmt.Println("  variant not detected by this property's rules:", v.Name)
			}
			if v.Status == "false-alarm" {
				fmt.Println("  behaviour-preserving variant reported by this property's rules:", v.Name, v.Rule)
			}
		}
	}
	return r.Finish()
}

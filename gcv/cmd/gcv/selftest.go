package main

import (
	"bytes"
	"encoding/json"
	"fmt"
	"os"
	"os/exec"
	"path/filepath"
	"sort"
	"strings"
	"sync"

	"gcv/internal/core"
)

// The thorough tier re-runs the property's rules on variants of /repo's current tree, each with one
// recorded change applied (the confirmed seeded breakages under /verif/seeded, the hand-made mutations
// and the reversed defect repairs under /verif/mutations). Every variant is still only analysed, never
// executed. Patches named benign-* are behaviour-preserving edits (renames, restructured loops, an equivalent
// form of a test): the rules must stay silent on them. A variant whose patch no longer applies to the current
// tree is reported as not applicable.
// The result goes into the evidence; it never changes the verdict on /repo itself.

type variant struct {
	Name  string
	Patch string
}

type variantResult = core.VariantResult

func collectVariants(id string) []variant {
	vd := core.VerifDir()
	var out []variant
	seeds, _ := filepath.Glob(filepath.Join(vd, "seeded", id+"-*", "patch.diff"))
	for _, s := range seeds {
		out = append(out, variant{"seeded/" + filepath.Base(filepath.Dir(s)), s})
	}
	// seeds of other properties that this property's rules also catch are listed in their meta.json
	metas, _ := filepath.Glob(filepath.Join(vd, "seeded", "*", "meta.json"))
	for _, m := range metas {
		b, err := os.ReadFile(m)
		if err != nil {
			continue
		}
		var mm struct {
			Checker struct {
				Also []string `json:"also_detected_by"`
			} `json:"checker"`
		}
		json.Unmarshal(b, &mm)
		for _, a := range mm.Checker.Also {
			if a == id && !strings.HasPrefix(filepath.Base(filepath.Dir(m)), id+"-") {
				out = append(out, variant{"seeded/" + filepath.Base(filepath.Dir(m)), filepath.Join(filepath.Dir(m), "patch.diff")})
			}
		}
	}
	muts, _ := filepath.Glob(filepath.Join(vd, "mutations", id, "*.diff"))
	for _, s := range muts {
		out = append(out, variant{"mutations/" + id + "/" + strings.TrimSuffix(filepath.Base(s), ".diff"), s})
	}
	sort.Slice(out, func(i, j int) bool { return out[i].Name < out[j].Name })
	return out
}

func copyTree(dst string) error {
	// the working tree without .git: what the checks analyse
	cmd := exec.Command("sh", "-c", fmt.Sprintf("cd %q && tar --exclude=.git -cf - . | tar -xf - -C %q", core.RepoDir(), dst))
	if b, err := cmd.CombinedOutput(); err != nil {
		return fmt.Errorf("%v: %s", err, b)
	}
	return nil
}

func selfTest(id string) (results []variantResult, summary string) {
	vs := collectVariants(id)
	if len(vs) == 0 {
		return nil, "no recorded variants"
	}
	self, err := os.Executable()
	if err != nil {
		return nil, "cannot locate the checker binary"
	}
	workers := 6
	if len(vs) < workers {
		workers = len(vs)
	}
	results = make([]variantResult, len(vs))
	jobs := make(chan int)
	var wg sync.WaitGroup
	for w := 0; w < workers; w++ {
		wg.Add(1)
		go func() {
			defer wg.Done()
			scratch, err := os.MkdirTemp("", "gcv-variant-")
			if err != nil {
				for i := range jobs {
					results[i] = variantResult{Name: vs[i].Name, Status: "not-applicable", Rule: err.Error()}
				}
				return
			}
			defer os.RemoveAll(scratch)
			tree := filepath.Join(scratch, "tree")
			vout := filepath.Join(scratch, "verif")
			os.MkdirAll(tree, 0o755)
			os.MkdirAll(vout, 0o755)
			if kf, err := os.ReadFile(filepath.Join(core.VerifDir(), "known_findings.json")); err == nil {
				os.WriteFile(filepath.Join(vout, "known_findings.json"), kf, 0o644)
			}
			copied := false
			for i := range jobs {
				v := vs[i]
				res := variantResult{Name: v.Name}
				if !copied {
					if err := copyTree(tree); err != nil {
						res.Status, res.Rule = "not-applicable", err.Error()
						results[i] = res
						continue
					}
					copied = true
				}
				git := func(args ...string) error {
					c := exec.Command("git", args...)
					c.Dir = tree
					c.Env = append(os.Environ(), "GIT_CEILING_DIRECTORIES="+scratch)
					return c.Run()
				}
				if git("apply", "--check", v.Patch) != nil {
					res.Status = "not-applicable"
					results[i] = res
					continue
				}
				if git("apply", v.Patch) != nil {
					res.Status = "not-applicable"
					results[i] = res
					continue
				}
				c := exec.Command(self, "-p", id, "-tier", "quick")
				c.Env = append(os.Environ(), "GCV_REPO="+tree, "GCV_VERIF="+vout, "GCV_VARIANT=1")
				var buf bytes.Buffer
				c.Stdout, c.Stderr = &buf, &buf
				c.Run()
				outS := buf.String()
				benign := strings.Contains(filepath.Base(v.Patch), "benign-")
				switch {
				case strings.Contains(outS, "UNDECIDED"):
					res.Status = "does-not-type-check"
				case benign && !strings.Contains(outS, "VIOLATION property="):
					res.Status = "silent-as-expected"
				case benign:
					res.Status = "false-alarm"
					for _, l := range strings.Split(outS, "\n") {
						if strings.HasPrefix(strings.TrimSpace(l), "rule ") {
							res.Rule = strings.TrimSpace(l)
							if len(res.Rule) > 200 {
								res.Rule = res.Rule[:200]
							}
							break
						}
					}
				case strings.Contains(outS, "VIOLATION property="):
					res.Status = "detected"
					for _, l := range strings.Split(outS, "\n") {
						if strings.HasPrefix(strings.TrimSpace(l), "rule ") {
							res.Rule = strings.TrimSpace(l)
							if len(res.Rule) > 200 {
								res.Rule = res.Rule[:200]
							}
							break
						}
					}
				default:
					res.Status = "missed"
				}
				results[i] = res
				if git("apply", "-R", v.Patch) != nil {
					os.RemoveAll(tree)
					os.MkdirAll(tree, 0o755)
					copied = false
				}
			}
		}()
	}
	for i := range vs {
		jobs <- i
	}
	close(jobs)
	wg.Wait()
	cnt := map[string]int{}
	for _, r := range results {
		cnt[r.Status]++
	}
	summary = fmt.Sprintf("%d recorded variants of the current tree analysed: %d breaking ones detected, %d missed; %d behaviour-preserving ones silent, %d false alarms; %d not applicable to this tree, %d not type-checking", len(vs), cnt["detected"], cnt["missed"], cnt["silent-as-expected"], cnt["false-alarm"], cnt["not-applicable"], cnt["does-not-type-check"])
	return results, summary
}

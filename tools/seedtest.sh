#!/bin/bash
# usage: seedtest.sh <patch.diff> <prop> [<prop>...]   copies /repo's working tree to a scratch directory, applies
# the patch there and runs the given checks on the copy. Nothing in /repo or /verif is modified.
patch=$(readlink -f "$1"); shift
t=$(mktemp -d /tmp/gcv_seed_XXXXXX)
rsync -a --exclude=.git /repo/ $t/tree/
( cd $t/tree && patch -p1 -s < "$patch" ) || { echo "patch does not apply"; rm -rf $t; exit 2; }
mkdir -p $t/out; cp /verif/known_findings.json $t/out/ 2>/dev/null
for p in "$@"; do
  out=$(GCV_REPO=$t/tree GCV_VERIF=$t/out GCV_VARIANT=1 ${GCV_BIN:-/verif/bin/gcv} -p $p 2>&1)
  echo "$out" | grep -A1 "^VIOLATION" | grep "rule" | cut -c1-260 | head -8
  echo "$out" | tail -1
done
rm -rf $t

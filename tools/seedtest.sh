#!/bin/bash
# usage: seedtest.sh <patch.diff> <prop> [<prop>...]   applies the patch to /repo, runs the checks, reverts
patch=$1; shift
cd /repo || exit 2
if ! git diff --quiet; then echo "repo dirty"; exit 2; fi
git apply "$patch" || { echo "patch does not apply"; exit 2; }
mkdir -p /tmp/gcv_seed_scratch; cp /verif/known_findings.json /tmp/gcv_seed_scratch/ 2>/dev/null
for p in "$@"; do
  out=$(GCV_VERIF=/tmp/gcv_seed_scratch /verif/bin/gcv -p $p 2>&1)
  echo "$out" | grep -A1 "^VIOLATION" | grep "rule" | cut -c1-260 | head -8
  echo "$out" | tail -1
done
git checkout -- . ; rm -rf /tmp/gcv_seed_scratch

#!/bin/bash
# usage: astcheck.sh <mode> [<only-substring>] : rewrites a scratch copy of /repo with bin/astmut (a mechanical,
# behaviour-preserving transformation of every applicable construct), checks that it still builds, and runs
# all twenty checks on it. Prints the rules that raise an alarm (= form-sensitive rules).
mode=$1; only=$2
t=$(mktemp -d /tmp/gcv_ast_XXXXXX)
rsync -a --exclude=.git /repo/ $t/tree/
export GOFLAGS=-mod=mod GOPROXY=off GOSUMDB=off GOTOOLCHAIN=local; unset GOWORK
/verif/bin/astmut -dir $t/tree -mode $mode ${only:+-only $only}
( cd $t/tree && go build ./client ./wallet ./lib/btc ./lib/chain ./lib/utxo ./lib/script ./lib/secp256k1 ./lib/others/qdb ./lib/others/memory ./lib/others/bech32 ./lib/others/snappy 2>&1 | head -20 )
mkdir -p $t/out; cp /verif/known_findings.json $t/out/
for p in $(seq -f 'C%02g' 1 20); do
  out=$(GCV_REPO=$t/tree GCV_VERIF=$t/out GCV_VARIANT=1 ${GCV_BIN:-/verif/bin/gcv} -p $p 2>&1)
  echo "$out" | grep -A1 "^VIOLATION\|^UNDECIDED" | grep "rule" | cut -c1-300 | sed "s/^/$p: /" | head -${ASTMAX:-8}
  echo "$out" | tail -1 | grep -v " 0 violated" | sed "s/^/   /"
done
if [ -n "$KEEP" ]; then echo "kept $t"; else rm -rf $t; fi

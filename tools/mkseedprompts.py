#!/usr/bin/env python3
"""mkseedprompts.py <round-tag> <seed> <prop>... : writes /tmp/seedprompts/prompt_<prop><tag>.txt for sub-agents.
Each prompt contains only the property text (from properties.jsonl), the mechanism anchors, keywords of earlier
seeded changes (so that a different mechanism is chosen) and the delivery instructions. Nothing about the checks."""
import json,glob,os,random,sys
tag,seed=sys.argv[1],int(sys.argv[2]); pids=sys.argv[3:]
props={}
for l in open('/verif/properties.jsonl'):
    d=json.loads(l); props[d['id']]=d
tmpl=open('/verif/tools/seedprompt_template.txt').read()
head=tmpl[:tmpl.index('Here is a semantic property')]
tail=tmpl[tmpl.index('Your job: make ONE small'):tmpl.index('Hint on where to look')]
kinds=["an aliasing or buffer-reuse slip","a stale value carried across loop iterations or retries","a condition that is right in only one of two sibling code paths","a boundary that matters only for an exact-fit value","state that is updated on the common path but not on an early-exit or error path","two statements swapped so that a value is used before it is set","a wrong operand in a copy-pasted twin of a correct line","an unsigned subtraction or sum that can wrap","a lock released one statement too early","a cache that is not invalidated when its input changes","a length taken from the wrong one of two buffers","a flag tested with the wrong mask or the wrong polarity in one rarely taken branch","an index advanced by the wrong stride in one branch","an error result that is overwritten before it is checked","a shadowed variable (:= instead of =) in one branch","a number parsed or printed in the wrong base or width","a platform-dependent constant (word size, int width)","a comparison hoisted out of the loop it belonged to","a clean-up that runs on success but not on failure","a default value used when a lookup fails silently","a signed/unsigned conversion that changes a comparison","a retry that does not reset what the failed attempt left behind"]
random.seed(seed)
os.makedirs('/tmp/seedprompts',exist_ok=True)
for pid in pids:
    d=props[pid]; t=pid.lower()+tag
    prev=[os.path.basename(x)[4:].replace('-',' ') for x in sorted(glob.glob(f'/verif/seeded/{pid}-*'))]
    h=head.replace('seed_c12a','seed_'+t)
    tl=tail.replace('seed_c12a','seed_'+t).replace('"property": "C12"','"property": "%s"'%pid)
    mech='; '.join('%s (%s)'%(m['name'],m['where']) for m in d['anchors']['mechanism'])
    body='Here is a semantic property the project is supposed to satisfy:\n\n%s: %s\n%s\nQuantified over: %s\n\n'%(pid,d['title'],d['statement'],d['quantifier']['text'])
    ks=random.sample(kinds,4)
    hint='Hint on where to look: %s. Helpers and callers of these functions count as well - the change does not have to be in one of the named functions.\nEarlier testers already made these changes (described by keywords): %s. Choose a DIFFERENT mechanism, file or function and a different kind of slip, for example: %s.\n'%(mech,'; '.join(prev),'; '.join(ks))
    open('/tmp/seedprompts/prompt_%s.txt'%t,'w').write(h+body+tl+hint)
    print(t)

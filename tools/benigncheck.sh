#!/bin/bash
# usage: benigncheck.sh <patch.diff> [<prop>...]   copies /repo's working tree (without .git) to a scratch directory,
# applies the patch there and runs the given checks (default: all twenty) on the copy; prints one line per check
# that reports a violation, or "silent". Nothing in /repo or /verif is modified.
patch=$(readlink -f "$1"); shift
props="$@"; [ -z "$props" ] && props=$(seq -f 'C%02g' 1 20)
t=$(mktemp -d /tmp/gcv_benign_XXXXXX)
rsync -a --exclude=.git /repo/ $t/tree/
( cd $t/tree && patch -p1 -s < "$patch" ) || { echo "patch does not apply: $patch"; rm -rf $t; exit 2; }
mkdir -p $t/out; cp /verif/known_findings.json $t/out/
bad=0
for p in $props; do
  out=$(GCV_REPO=$t/tree GCV_VERIF=$t/out GCV_VARIANT=1 ${GCV_BIN:-/verif/bin/gcv} -p $p 2>&1)
  if echo "$out" | grep -q "^VIOLATION\|^UNDECIDED"; then
    bad=1; echo "ALARM $p on $(basename $(dirname $patch))/$(basename $patch):"; echo "$out" | grep -A1 "^VIOLATION\|^UNDECIDED" | grep "rule" | cut -c1-330 | head -4
  fi
done
[ $bad = 0 ] && echo "silent: $patch"
rm -rf $t

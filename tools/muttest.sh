#!/bin/bash
# muttest.sh <prop> <mutations-file>: each line "file|perl-substitution" is applied to /repo, built,
# checked with the property's checker (output to a scratch dir) and reverted. Prints DETECTED/MISSED/NOBUILD.
# Hand-made mutations for strengthening checks; never leaves /repo modified.
set -u
export GOFLAGS=-mod=mod GOPROXY=off GOSUMDB=off GOTOOLCHAIN=local; unset GOWORK
prop=$1; muts=$2
out=$(mktemp -d /tmp/mut.XXXXXX)
cd /repo || exit 2
if [ -n "$(git status --porcelain)" ]; then echo "/repo not clean"; exit 2; fi
n=0
while IFS='|' read -r file expr; do
  [ -z "$file" ] && continue
  case "$file" in \#*) continue;; esac
  n=$((n+1))
  perl -0pi -e "$expr" "$file"
  if [ -z "$(git status --porcelain)" ]; then echo "$n NOCHANGE $file $expr"; continue; fi
  if ! go build ./wallet ./client ./lib/btc ./lib/script ./lib/chain ./lib/utxo ./lib/secp256k1 ./lib/others/qdb ./lib/others/memory ./lib/others/sys ./lib/others/utils ./lib/others/bip39 >/dev/null 2>&1; then echo "$n NOBUILD $file $expr"; git checkout -- .; continue; fi
  res=$(GCV_VERIF=$out /verif/bin/gcv -p "$prop" 2>&1)
  if echo "$res" | grep -q "^VIOLATION"; then
    echo "$n DETECTED $file $expr :: $(echo "$res" | grep -A1 '^VIOLATION' | grep 'rule' | head -2 | cut -c1-220 | tr '\n' ' ')"
  else
    echo "$n MISSED   $file $expr"
  fi
  git checkout -- .
done < "$muts"
rm -rf "$out"

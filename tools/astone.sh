#!/bin/bash
# astone.sh <mode> <only> <props...>
mode=$1; only=$2; shift 2
t=$(mktemp -d /tmp/gcv_ast_XXXXXX)
rsync -a --exclude=.git /repo/ $t/tree/
export GOFLAGS=-mod=mod GOPROXY=off GOSUMDB=off GOTOOLCHAIN=local; unset GOWORK
/verif/bin/astmut -dir $t/tree -mode $mode -only "$only"
mkdir -p $t/out; cp /verif/known_findings.json $t/out/
for p in "$@"; do
  out=$(GCV_REPO=$t/tree GCV_VERIF=$t/out GCV_VARIANT=1 ${GCV_BIN:-/verif/bin/gcv} -p $p 2>&1)
  echo "$out" | grep -A1 "^VIOLATION\|^UNDECIDED" | grep "rule" | cut -c1-${W:-300} | sed "s/^/$p: /" | head -${ASTMAX:-4}
  echo "$out" | tail -1
done
if [ -n "$KEEP" ]; then echo "kept $t"; else rm -rf $t; fi

#!/bin/bash
# Runs the repository's pinned test suite (guard off) and compares with BASELINE.json's stable_pass list.
export GOPROXY=off GOSUMDB=off GOTOOLCHAIN=local
cd /repo
out=$(mktemp)
go test -mod=mod -json -vet=off -count=1 -timeout 25m ./... > "$out" 2>/dev/null
python3 - "$out" <<'PY'
import json,sys
passed=set(); failed=set()
for l in open(sys.argv[1]):
    try: e=json.loads(l)
    except: continue
    if e.get('Test') and '/' not in e['Test']:
        k=e['Package']+'::'+e['Test']
        if e.get('Action')=='pass': passed.add(k)
        if e.get('Action')=='fail': failed.add(k)
base=set(json.load(open('/root/.vp/BASELINE.json'))['stable_pass'])
missing=sorted(base-passed)
print("baseline tests passing: %d/%d; failing (any): %d" % (len(base&passed), len(base), len(failed)))
for m in missing: print("  NOT PASSING:", m)
sys.exit(1 if missing else 0)
PY
rc=$?
rm -f "$out"
exit $rc

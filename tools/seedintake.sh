#!/bin/bash
# usage: seedintake.sh <tag> <seed-id> <prop> [<more props to test>...]
# Shows the change, finds the demo's package directory and test names, confirms (fails with / passes without),
# files it under /verif/seeded/<seed-id> and runs the property checks against it.
tag=$1; id=$2; shift 2
wt=/tmp/seed_$tag
[ -d $wt/seed ] || { echo "no $wt/seed"; exit 2; }
echo "--- change:"; grep "^[-+]" $wt/seed/patch.diff | grep -v "^+++\|^---" | cut -c1-160 | head -30
demo=$(find $wt/seed/demo -name "*_test.go" | head -1)
[ -n "$demo" ] || { echo "no demo test"; exit 2; }
[ "$demo" != "$wt/seed/demo/zz_seed_demo_test.go" ] && cp "$demo" $wt/seed/demo/zz_seed_demo_test.go
pkgname=$(grep -m1 "^package " $demo | awk '{print $2}')
pdir=$(dirname $(grep -m1 "^+++ b/" $wt/seed/patch.diff | sed 's#^+++ b/##'))
if ! grep -qs "^package $pkgname\b" $wt/$pdir/*.go; then
  pdir=$(cd $wt && grep -ls "^package $pkgname$" $(git ls-files '*.go' | grep -v _test) 2>/dev/null | xargs -n1 dirname | sort | uniq -c | sort -rn | awk '{print $2}' | head -1)
fi
rx=$(grep "^func Test" $demo | sed 's/func \(Test[A-Za-z0-9_]*\).*/\1/' | paste -sd'|')
echo "--- demo package dir: $pdir   tests: $rx"
find $wt -name "zz_seed_demo_test.go" -not -path "*/seed/*" -delete
/verif/tools/seedconfirm.sh $wt $pdir "$rx" $id $1 2>&1 | tail -n 3
echo "--- checks:"
for p in "$@"; do /verif/tools/seedtest.sh /verif/seeded/$id/patch.diff $p | cut -c1-330; done

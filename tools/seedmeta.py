#!/usr/bin/env python3
"""seedmeta.py <seed-id> <detected-by> <history> [also=Cnn,...] : writes seeded/<id>/meta.json from meta_agent.json"""
import json,sys
sid,by,hist=sys.argv[1:4]
also=[a[5:].split(',') for a in sys.argv[4:] if a.startswith('also=')]
a=json.load(open(f'/verif/seeded/{sid}/meta_agent.json'))
m={"property":sid[:3],"summary":a.get("summary",""),"needs":a.get("needs",""),
   "confirmed":{"ran":"tools/seedintake.sh (seedconfirm in the agent's scratch worktree): demo FAILS with patch.diff applied, PASSES with it reverted; go test ./lib/... ./wallet/...: same 11 ok packages with the change","demo":"demo/zz_seed_demo_test.go"},
   "checker":{"status":"detected","by":by,"how":f"tools/seedtest.sh /verif/seeded/{sid}/patch.diff {sid[:3]}","history":hist}}
if also: m['checker']['also_detected_by']=also[0]
json.dump(m,open(f'/verif/seeded/{sid}/meta.json','w'),indent=1)
print("meta written",sid)

#!/bin/bash
# usage: seedconfirm.sh <seed worktree> <pkg dir> <test regex> <id> <prop>
# Confirms in the scratch worktree: demo fails with the change, passes without; baseline suite unaffected is the agent's claim (re-run for lib+wallet).
wt=$1; pkg=$2; rx=$3; id=$4; prop=$5
export GOFLAGS=-mod=mod GOPROXY=off GOSUMDB=off GOTOOLCHAIN=local; unset GOWORK
cd $wt || exit 2
cp seed/demo/zz_seed_demo_test.go $pkg/ || exit 2
git apply -R --check seed/patch.diff 2>/dev/null || { echo "change not applied in worktree?"; }
with=$(go test -vet=off -count=1 -run "$rx" ./$pkg/ 2>&1 | grep -v "^WARNING" | tail -3)
git apply -R seed/patch.diff
without=$(go test -vet=off -count=1 -run "$rx" ./$pkg/ 2>&1 | grep -v "^WARNING" | tail -3)
git apply seed/patch.diff
rm -f $pkg/zz_seed_demo_test.go
suite=$(go test -vet=off -count=1 ./lib/... ./wallet/... 2>&1 | grep -v "^WARNING" | grep -c "^ok")
echo "WITH change:    $(echo "$with" | tr '\n' ' ' | cut -c1-200)"
echo "WITHOUT change: $(echo "$without" | tr '\n' ' ' | cut -c1-200)"
echo "suite ok packages with change: $suite"
mkdir -p /verif/seeded/$id
cp seed/patch.diff /verif/seeded/$id/patch.diff
cp -r seed/demo /verif/seeded/$id/
cp seed/meta.json /verif/seeded/$id/meta_agent.json

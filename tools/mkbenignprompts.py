#!/usr/bin/env python3
"""mkbenignprompts.py <round-tag> <prop>... : writes /tmp/seedprompts/benign_<prop><tag>.txt - prompts for sub-agents that
produce behaviour-preserving edits (to test that the rules stay silent). Property text and anchors only; nothing about the checks."""
import json,os,sys
tag=sys.argv[1]; pids=sys.argv[2:]
props={}
for l in open('/verif/properties.jsonl'):
    d=json.loads(l); props[d['id']]=d
t=open('/verif/tools/benignprompt_template%s.txt'%('3' if tag[:2] in ('b3','b4','b5') else '2' if tag.startswith('b2') else '')).read()
targets=json.load(open('/verif/tools/benign_targets_%s.json'%tag[:2] if tag[:2] in ('b4','b5') else '/verif/tools/benign_targets.json')) if tag[:2] in ('b3','b4','b5') else {}
os.makedirs('/tmp/seedprompts',exist_ok=True)
for pid in pids:
    d=props[pid]; wt='benign_'+pid.lower()+tag
    mech='; '.join('%s (%s)'%(m['name'],m['where']) for m in d['anchors']['mechanism'])
    body='%s: %s\n%s'%(pid,d['title'],d['statement'])
    hint='Hint on where the property is implemented: %s. Files: %s.'%(mech,', '.join(d['anchors'].get('files',[])))
    open('/tmp/seedprompts/%s.txt'%wt,'w').write(t.replace('/tmp/WT','/tmp/'+wt).replace('PROPTEXT',body).replace('PID',pid).replace('HINT',hint).replace('TARGETS',targets.get(pid,'')))
    print(wt)

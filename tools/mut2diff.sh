#!/bin/bash
# mut2diff.sh <prop> <mutations-file>: turns each "file|perl-substitution" line into a unified diff
# /verif/mutations/<prop>/<nn>.diff (first line: the substitution, as a description). /repo is left clean.
set -u
prop=$1; muts=$2
mkdir -p /verif/mutations/$prop
cd /repo || exit 2
if [ -n "$(git status --porcelain)" ]; then echo "/repo not clean"; exit 2; fi
n=$(ls /verif/mutations/$prop/*.diff 2>/dev/null | wc -l)
while IFS='|' read -r file expr; do
  [ -z "$file" ] && continue
  case "$file" in \#*) continue;; esac
  perl -0pi -e "$expr" "$file"
  if [ -z "$(git status --porcelain)" ]; then echo "NOCHANGE $file $expr"; continue; fi
  n=$((n+1))
  f=/verif/mutations/$prop/$(printf %02d $n).diff
  { echo "mutation: $file $(echo "$expr" | tr '\n' ' ' | cut -c1-160)"; git diff; } > $f
  git checkout -- .
done < "$muts"
ls /verif/mutations/$prop | wc -l

#!/usr/bin/env python3
"""Regenerates /verif/MANIFEST.json from tools/claims.json (one entry per property:
either a claim {text, note, technique, design_ref} or {"na": reason})."""
import json, os, sys
V = os.path.dirname(os.path.dirname(os.path.abspath(__file__)))
claims = json.load(open(os.path.join(V, "tools", "claims.json")))
ids = [json.loads(l)["id"] for l in open(os.path.join(V, "properties.jsonl")) if l.strip()]
BASE = json.load(open("/root/.vp/BASELINE.json"))["cmd"] if os.path.exists("/root/.vp/BASELINE.json") else ""
m = {
  "version": 1,
  "setup_cmd": "cd /verif/gcv && env -u GOWORK GOFLAGS=-mod=vendor GOPROXY=off GOSUMDB=off GOTOOLCHAIN=local go build -o /verif/bin/gcv ./cmd/gcv",
  "hooks": {"guard": "verif", "enable": "none needed: static analysis reads the unmodified tree; every load is also valid with -tags verif", "baseline_off_cmd": BASE, "source_commits": [], "add_only": True},
  "engines": [{"name": "gcv", "path": "gcv/", "serves_properties": [i for i in ids if "na" not in claims.get(i, {"na": 1})],
               "kind_free_text": "repository-specific static analyser (go/packages + go/types + go/ssa + call graph from x/tools v0.29.0): guard/provenance, lock-set, effect-ordering, taint/bounds, codec-agreement, literal-table and magnitude rules; no gocoin code is executed"}],
  "checks": [], "not_applicable": [],
  "notes": "All checks are static (see DESIGN.md). Exit 0 = all rule instances hold (known findings printed as KNOWN-FINDING), exit 1 + VIOLATION line = a rule instance fails that known_findings.json does not list, exit 2 = UNDECIDED (program could not be loaded / anchor unresolved).",
}
for i in ids:
    c = claims.get(i)
    if not c or "na" in c:
        m["not_applicable"].append({"property_id": i, "reason": (c or {}).get("na", "rule not yet armed")})
        continue
    m["checks"].append({
        "property_id": i,
        "quick_cmd": f"/verif/bin/gcv -p {i} -tier quick",
        "thorough_cmd": f"/verif/bin/gcv -p {i} -tier thorough",
        "evidence_file": f"/verif/evidence/{i}.json",
        "replay_cmd_template": "/verif/bin/gcv -explain {path}",
        "engine": "gcv",
        "level_claimed": {"category": "other", "text": c["text"], "design_ref": c.get("design_ref", "DESIGN.md section 3, " + i)},
        "level_note": c["note"],
        "technique": c["technique"],
    })
json.dump(m, open(os.path.join(V, "MANIFEST.json"), "w"), indent=1)
print("checks:", len(m["checks"]), "not_applicable:", len(m["not_applicable"]))
